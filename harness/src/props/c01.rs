//! C01 — no input crashes the parse / evaluate / serialise / format pipeline.
//!  * every built-in x argument tuples from the boundary pool: no panic (oracle), same
//!    outcome as the Lean model (correspondence);
//!  * every parameter-list shape x argument count: no panic, model agreement;
//!  * source streams (grammar-generated, mutated, raw UTF-8): every stage under
//!    catch_unwind; error spans lie inside the text they refer to; error rendering works;
//!  * JSON documents incl. function objects through from_json / to_value / call;
//!  * the real binary: exit status never 101 / 134 / 139.

use crate::evalcommon::*;
use crate::evgen;
use crate::progen::{self, GenCfg};
use crate::tv::{self, TV};
use crate::util::{guarded, Ctx, Model, Report, Rng};
use blots_core::environment::Environment;
use blots_core::values::SerializableValue;
use std::rc::Rc;

pub fn boundary_pool() -> Vec<TV> {
    let mut p: Vec<TV> = vec![];
    for n in [f64::NAN, f64::INFINITY, f64::NEG_INFINITY, 0.0, -0.0, 1.0, -1.0, 2.0, 0.5, -2.5, 3.0, 9007199254740992.0, 1e30, -1e30, 1e-7, 100.0, 1e15, 20.0, 1.7] {
        p.push(TV::Num(n));
    }
    for s in ["", "a", "héllo", "日本語😀", "a,b,c", " x ", "{}", "{} and {}", "km", "m", "nan", "12.5", "true"] {
        p.push(TV::Str(s.into()));
    }
    p.push(TV::Bool(true));
    p.push(TV::Bool(false));
    p.push(TV::Null);
    p.push(TV::List(vec![]));
    p.push(TV::List(vec![TV::Num(3.0), TV::Num(1.0), TV::Num(2.0)]));
    p.push(TV::List(vec![TV::Num(1.0), TV::Num(f64::NAN)]));
    p.push(TV::List(vec![TV::Num(1.0), TV::Str("a".into()), TV::Null, TV::Bool(true)]));
    p.push(TV::List(vec![TV::List(vec![TV::Num(1.0)]), TV::List(vec![])]));
    p.push(TV::List(vec![TV::Str("b".into()), TV::Str("a".into())]));
    p.push(TV::List((0..25).map(|i| if i % 3 == 0 { TV::Str("s".into()) } else if i % 3 == 1 { TV::Num(i as f64) } else { TV::Num(f64::NAN) }).collect()));
    p.push(TV::Record(vec![]));
    p.push(TV::Record(vec![("a".into(), TV::Num(1.0)), ("b".into(), TV::List(vec![TV::Num(2.0)]))]));
    p.push(TV::Lambda("x => x".into()));
    p.push(TV::Lambda("(x, y) => x + y".into()));
    p.push(TV::Lambda("(a?, b) => 1".into()));
    p.push(TV::Lambda("(...r) => len(r)".into()));
    p.push(TV::Lambda("x => x > 1".into()));
    p.push(TV::Lambda("x => to_string(x)".into()));
    p.push(TV::Lambda("() => 1".into()));
    p.push(TV::BuiltIn("sum".into()));
    p.push(TV::BuiltIn("map".into()));
    p.push(TV::BuiltIn("sqrt".into()));
    p
}

fn builtin_names() -> Vec<&'static str> {
    blots_core::functions::BuiltInFunction::all_names().into_iter().filter(|n| *n != "print" && *n != "time_now").collect()
}

fn check_builtin(model: &mut Model, rep: &mut Report, name: &str, args: &[TV]) {
    if name == "range" && range_hazard(args) {
        rep.count("range-allocation-hazard-skipped");
        return;
    }
    let desc = format!("{}({})", name, args.iter().map(|a| a.to_source()).collect::<Vec<_>>().join(", "));
    let (real, _h) = call_builtin_real(name, args);
    rep.case(&desc, true);
    if real == "(panic)" {
        rep.finding("oracle", "builtin-panics", &desc, "", "c01.builtin-panic");
    }
    // NaN inside median / percentile: the order of NaNs depends on the NaN sign bit, which the
    // model cannot observe (see wire::num); format with braces other than {}: outside the
    // modelled fragment of dyn_fmt
    let has_nan = |t: &TV| -> bool { format!("{:?}", t).contains("NaN") };
    if (name == "median" || name == "percentile" || name == "sort" || name == "sort_by") && args.iter().any(has_nan) {
        rep.count("nan-order-not-compared");
        return;
    }
    if matches!(name, "uppercase" | "lowercase" | "trim") && args.iter().any(|a| matches!(a, TV::Str(s) if !s.is_ascii())) {
        rep.count("unicode-case-not-compared");
        return;
    }
    let m = model_builtin(model, name, args);
    if name == "format" && m == "(err)" && real.starts_with("(ok") {
        rep.count("dyn-fmt-fragment-not-compared");
        return;
    }
    if m.contains("(fuel)") {
        rep.count("model-out-of-fuel");
    } else if m != real {
        rep.finding("model", "builtin", &desc, &format!("impl={} model={}", short(&real), short(&m)), "c01.model.builtin");
    }
}

pub fn run(ctx: &Ctx, rep: &mut Report) {
    let mut rng = Rng::new(ctx.seed);
    let mut model = Model::spawn(&ctx.model_path);
    let pool = boundary_pool();
    let names = builtin_names();

    // ---- built-ins on the boundary pool -----------------------------------------------------
    for name in names.iter() {
        let b = blots_core::functions::BuiltInFunction::from_ident(name).unwrap();
        let (lo, hi) = match b.arity() {
            blots_core::values::FunctionArity::Exact(n) => (n, n),
            blots_core::values::FunctionArity::AtLeast(n) => (n, n + 2),
            blots_core::values::FunctionArity::Between(a, b) => (a, b),
        };
        // wrong counts are arity errors, never panics
        for n in [0usize, 1, 2, 3, 4] {
            if n < lo || n > hi {
                let args: Vec<TV> = (0..n).map(|_| TV::Num(1.0)).collect();
                check_builtin(&mut model, rep, name, &args);
            }
        }
        for n in lo..=hi.min(4) {
            if n == 0 {
                check_builtin(&mut model, rep, name, &[]);
            } else if n == 1 {
                for a in pool.iter() {
                    check_builtin(&mut model, rep, name, &[a.clone()]);
                }
            } else if n == 2 {
                let full = ctx.thorough();
                for (i, a) in pool.iter().enumerate() {
                    for (j, b2) in pool.iter().enumerate() {
                        if full || (i * 7 + j * 3 + ctx.seed as usize) % 5 == 0 {
                            check_builtin(&mut model, rep, name, &[a.clone(), b2.clone()]);
                        }
                    }
                }
            } else {
                let k = ctx.budget(400, 6000);
                for _ in 0..k {
                    let args: Vec<TV> = (0..n).map(|_| rng.pick(&pool).clone()).collect();
                    check_builtin(&mut model, rep, name, &args);
                }
            }
        }
    }

    // ---- parameter lists x argument counts ----------------------------------------------------
    let kinds = ["a", "b?", "...c"];
    let mut shapes: Vec<Vec<String>> = vec![vec![]];
    for len in 1..=3 {
        let mut idx = vec![0usize; len];
        loop {
            let names2 = ["p", "q", "r"];
            let shape: Vec<String> = idx.iter().enumerate().map(|(k, i)| kinds[*i].replace(['a', 'b', 'c'], names2[k])).collect();
            shapes.push(shape);
            let mut k = 0;
            while k < len {
                idx[k] += 1;
                if idx[k] < 3 { break; }
                idx[k] = 0;
                k += 1;
            }
            if k == len { break; }
        }
    }
    for shape in shapes.iter() {
        let params = shape.join(", ");
        let vars: Vec<String> = shape.iter().map(|s| s.trim_start_matches("...").trim_end_matches('?').to_string()).collect();
        for n in 0..=5 {
            let args: Vec<String> = (0..n).map(|i| format!("{}", i + 1)).collect();
            let src = format!("f = ({}) => [{}]\nf({})", params, vars.join(", "), args.join(", "));
            rep.case(&src, true);
            check_session(&mut model, rep, &src, None, "c01");
        }
    }

    // ---- source streams ---------------------------------------------------------------------------
    let n_src = ctx.budget(600, 8000);
    for i in 0..n_src {
        let src = match i % 4 {
            0 => {
                let cfg = GenCfg { comments: i % 8 == 0, max_depth: 1 + rng.below(4) };
                progen::gen_program(&mut rng, &cfg, 3).to_source()
            }
            1 => evgen::gen_program(&mut rng, 4, 2).0,
            2 => {
                // mutate a generated program: delete / duplicate / replace bytes at char boundaries
                let base = evgen::gen_program(&mut rng, 3, 2).0;
                let mut cs: Vec<char> = base.chars().collect();
                for _ in 0..1 + rng.below(4) {
                    if cs.is_empty() { break; }
                    let k = rng.below(cs.len());
                    match rng.below(4) {
                        0 => { cs.remove(k); }
                        1 => { let c = cs[k]; cs.insert(k, c); }
                        2 => { cs[k] = *rng.pick(&['(', ')', '[', ']', '{', '}', '"', '\'', '\n', ',', '=', '>', '.', '#', '!', '-', 'é', '0', ' ']); }
                        _ => { let j = rng.below(cs.len()); cs.swap(k, j); }
                    }
                }
                cs.into_iter().collect()
            }
            _ => {
                let n = rng.below(40);
                let alphabet: Vec<char> = "abxy01 ()[]{}\"'\n\t,.:;=<>!&|+-*/%^?#_é日😀\u{0}\\$@~`".chars().collect();
                (0..n).map(|_| *rng.pick(&alphabet)).collect()
            }
        };
        rep.case(&src, true);
        pipeline(rep, &src);
    }
    // ---- higher-order built-ins and operators with callbacks that allocate, fail or re-enter ----------
    {
        let callbacks = [
            "s => s != \"\"", "s => \"lit\"", "s => [s]", "s => {k: s}", "s => typeof(s)", "s => split(\"a,b\", \",\")", "(...r) => r", "(s, i?) => [s, i]",
            "s => to_string(s) + \"x\"", "s => [s] via (t => [t])", "s => map([s], t => {a: t})", "s => sort_by([s, s], t => \"k\")", "s => s.missing", "s => s + 1",
            "s => undefined_name", "s => if s == 1 then true else \"no\"", "s => do {\n  q = [s]\n  return len(q) > 0\n}", "s => every([s], t => t == s)", "(a, s) => [a, s]",
            "(a, s, i) => {acc: a, s, i}", "s => null", "s => true", "s => 0/0", "len", "typeof", "to_string", "max", "5",
        ];
        let lists = ["[\"a\", \"b\"]", "[1, 2, 3]", "[]", "[[1], [2]]", "[{a: 1}, {b: 2}]", "[null, true, 1, \"s\"]", "range(12)", "\"text\"", "{a: 1}"];
        let forms = [
            "map(L, F)", "filter(L, F)", "every(L, F)", "some(L, F)", "reduce(L, F, 0)", "reduce(L, F, [])", "sort_by(L, F)", "group_by(L, F)", "count_by(L, F)",
            "L via F", "L where F", "L into F", "every(L, F) and some(L, F)", "map(filter(L, F), F)",
        ];
        for f in callbacks.iter() {
            for l in lists.iter() {
                for form in forms.iter() {
                    let src = form.replace('L', l).replace('F', &format!("({})", f));
                    rep.case(&src, true);
                    pipeline(rep, &src);
                }
            }
        }
    }

    // ---- call shapes x body shapes (frames: anonymous / named, 0..2 parameters, captures, inline assignments)
    {
        let bodies = ["(t = k + 1) * t", "[u = 1, u + k]", "do {\n  w = k\n  return w * 2\n}", "{a: (v = k), b: v}.b", "if k > 0 then (z = 1) else (z = 2)", "k", "[k, inputs]", "(t = 1) + (do {\n  t2 = t\n  return t2\n})"];
        let wrappers = ["(() => B)()", "((p) => B)(1)", "((p, q?) => B)(1)", "((...r) => B)()", "named = () => B\nnamed()", "named2 = (p) => B\nnamed2(2)", "[1] via (e => B)", "[1, 2] via (e => B)",
            "map([1, 2], (e, i) => B)", "(() => (() => B)())()", "[() => B][0]()", "{f: () => B}.f()", "[1, 2] where (e => (B) == (B))", "reduce([1, 2], (acc, e) => B, 0)", "1 into (e => B)"];
        for pre in ["k = 4", "k = [1]", ""] {
            for w in wrappers.iter() {
                for b in bodies.iter() {
                    let src = format!("{}\n{}", pre, w.replace('B', b));
                    rep.case(&src, true);
                    pipeline(rep, &src);
                }
            }
        }
    }

    // ---- error paths with long, non-ASCII values ---------------------------------------------------
    // every construct that reports an error mentioning (part of) a value, with texts whose
    // characters are 1 to 4 bytes long at every alignment: a message that cuts or pads by
    // bytes lands inside a character for some of them
    {
        let mut values: Vec<String> = vec![];
        for ch in ['é', '日', '😀', 'a'] {
            for pre in 0..4usize {
                for k in [1usize, 7, 15, 19, 20, 21, 29, 30, 31, 32, 33, 40, 58, 59, 60, 61, 62, 63, 64, 65, 100, 127, 128, 129, 255, 256, 257] {
                    if ch == 'a' && pre > 0 { continue; }
                    values.push(format!("\"{}{}\"", "x".repeat(pre), ch.to_string().repeat(k)));
                }
            }
        }
        let extra: Vec<String> = vec![
            "\"\"".to_string(), "\"µm\"".to_string(), "\"Ångström\"".to_string(), "\"€\"".to_string(), "\" \"".to_string(),
            format!("[{}]", (0..40).map(|i| format!("\"é{}\"", i)).collect::<Vec<_>>().join(", ")),
            format!("{{{}}}", (0..30).map(|i| format!("\"ké{}\": \"日{}\"", i, i)).collect::<Vec<_>>().join(", ")),
            "123456789012345678901234567890123456789012345678901234567890123456789".to_string(),
            format!("(x => \"{}\")", "é".repeat(80)),
        ];
        let templates: &[&str] = &[
            "V(1)", "[1, 2] via V", "[1, 2] where V", "3 into V", "V via (x => x)", "V + 1", "1 + V", "V - V", "-V", "V!", "V.k", "V[\"k\"]", "V[0][0]",
            "sum(V)", "map(V, x => x)", "map([1], V)", "filter([1], V)", "reduce([1, 2], V, 0)", "sort_by([2, 1], V)", "convert(1, V, \"m\")", "convert(1, \"m\", V)",
            "to_number(V)", "format(V, 1)", "format(\"{}\", V, V, V)", "range(V)", "V < 1", "1 < V", "if V then 1 else 2", "not V", "V and true", "true or V", "[...V]", "{...V}",
            "keys(V)", "{[V]: 1}.zz", "{a: 1}[V]", "zz = V\nzz = V", "zz = V\nzz(1)", "zz = V\nzz.a.b", "abs(V)", "round(1, V)", "slice(V, 2, 1)", "slice(V, -5, 900)", "head(V) + 1",
            "join([1, 2], V)(1)", "split(V, \"\")(1)", "replace(V, \"é\", \"日\")(1)", "uppercase(V)(1)", "typeof(V)(1)", "to_string(V)(1)", "chunk([1], V)", "percentile([1], V)",
            "group_by([1, 2], x => V)", "count_by([1], x => V)", "zip(V, V)", "concat(V, 1)", "includes(V, V)(1)", "unique(V)", "entries(V)", "do {\n  q = V\n  return q(2)\n}",
            "(f => f(1))(V)", "((a, b) => a)(V)", "V ?? 1 + true", "#V_long", "output V",
        ];
        let stride = if ctx.thorough() { 1 } else { 5 };
        let mut k = 0usize;
        for t in templates.iter() {
            for v in values.iter().chain(extra.iter()) {
                k += 1;
                if k % stride != 0 && !v.contains(&"é".repeat(58)) && !v.contains(&"é".repeat(30)) { continue; }
                let src = if t.contains("#V_long") { format!("#{}", "abcdefghij".repeat(8)) } else { t.replace('V', v) };
                rep.case(&src, true);
                pipeline(rep, &src);
            }
        }
        // unknown identifiers / fields of every length
        for n in [1usize, 59, 60, 61, 200] {
            for src in [format!("{}", "i".repeat(n)), format!("{{a: 1}}.{}", "f".repeat(n)), format!("{}(1)", "g".repeat(n)), format!("{} = 1\n{} = 2", "v".repeat(n), "v".repeat(n))] {
                rep.case(&src, true);
                pipeline(rep, &src);
            }
        }
    }

    // nesting up to 64
    for depth in [8usize, 16, 32, 64] {
        for (open, close) in [("(", ")"), ("[", "]"), ("-", ""), ("!", ""), ("{a: ", "}"), ("x => ", ""), ("if true then ", " else 0"), ("f(", ")")] {
            // the formatter lays out a lambda body / a condition twice when it does not fit, which is
            // exponential in the nesting depth of those two forms (observation recorded in
            // DESIGN.md; not a crash): keep them at a depth where it still finishes
            let depth = if (open.contains("=>") || open.contains("if ")) && depth > 12 { 12 } else { depth };
            let src = format!("{}1{}", open.repeat(depth), close.repeat(depth));
            rep.case(&src, true);
            pipeline(rep, &src);
        }
    }

    // ---- JSON documents incl. function objects -----------------------------------------------------
    let fn_sources = ["x => x + 1", "(a?, b) => 1", "(...r) => r", "x => x.y.z", "x => undefined_name + x", "not a function", "map", "x => (y => x + y)", "", "x => x!", "(x) => do {\n  y = x\n  return y / 0\n}", "x => x[10] + 1"];
    for fs in fn_sources.iter() {
        let doc = serde_json::json!({"f": {"__blots_function": fs}, "n": 1.5, "l": [1, {"__blots_function": fs}]});
        rep.case(&doc.to_string(), true);
        let r = guarded(|| {
            let heap = crate::run::new_heap();
            let env = Rc::new(Environment::new());
            let sv = SerializableValue::from_json(&doc);
            let loaded = { sv.to_value(&mut heap.borrow_mut()) };
            if let Ok(v) = loaded {
                env.insert("inputs".into(), v);
                for call in ["#f(1)", "#f(1, 2)", "#f()", "#l[1](2)", "to_string(#f)", "#f", "[1, 2] via #f"] {
                    let pairs = blots_core::parser::get_pairs(call);
                    if let Ok(mut ps) = pairs {
                        if let Some(st) = ps.next() {
                            if let Some(inner) = st.into_inner().next() {
                                let res = blots_core::expressions::evaluate_pairs(inner.into_inner(), heap.clone(), env.clone(), 0, call);
                                match res {
                                    Ok(v) => {
                                        let _ = v.stringify_external(&heap.borrow());
                                        let _ = SerializableValue::from_value(&v, &heap.borrow()).map(|s| s.to_json());
                                    }
                                    Err(e) => {
                                        check_error(&e)?;
                                    }
                                }
                            }
                        }
                    }
                }
            }
            Ok::<(), String>(())
        });
        match r {
            Err(p) => rep.finding("oracle", "json-function-panics", &doc.to_string(), &p, "c01.panic"),
            Ok(Err(e)) => rep.finding("oracle", "error-location-outside-text", &doc.to_string(), &e, "c01.error-span"),
            Ok(Ok(())) => {}
        }
    }

    // ---- the real binary --------------------------------------------------------------------------
    let cli_cases = ["median([1, 0/0])", "percentile([], 50)", "f = (a?, b) => 1\nf(1)", "range(-1e30, 1e30)", "sort([1, \"a\", 0/0, 2, \"b\", 3, 1, \"a\", 0/0, 2, \"b\", 3, 1, \"a\", 0/0, 2, \"b\", 3, 1, \"a\", 0/0, 2, \"b\", 3])",
        "output x = ((((((((1))))))))", "x = [1, 2,", "\"unterminated", "output y = 1 / 0", "f = x => f(x + 1)\nf(0)", "#a.b.c", "format(\"{} {\", 1)", "slice(\"héllo\", 1, 3)"];
    for (k, src) in cli_cases.iter().enumerate() {
        use std::process::{Command, Stdio};
        let out = Command::new("timeout").arg("30").arg(&ctx.blots_bin).arg(src).stdin(Stdio::null()).output();
        rep.count("cli-runs");
        if let Ok(o) = out {
            let code = o.status.code();
            if code.is_none() || matches!(code, Some(101) | Some(134) | Some(139) | Some(124)) {
                rep.finding("oracle", "binary-crashed", src, &format!("exit {:?} stderr {}", code, String::from_utf8_lossy(&o.stderr).chars().take(300).collect::<String>()), "c01.binary-crash");
            }
        }
        let _ = k;
    }
    rep.model_requests = model.requests;
}

/// a reported error location lies inside the text it refers to, and rendering works
fn check_error(e: &blots_core::error::RuntimeError) -> Result<(), String> {
    if let (Some(span), Some(source)) = (&e.span, &e.source) {
        let len = source.len();
        if span.start_byte > span.end_byte || span.end_byte > len || !source.is_char_boundary(span.start_byte) || !source.is_char_boundary(span.end_byte) {
            return Err(format!("span {}..{} outside source of {} bytes ({:?})", span.start_byte, span.end_byte, len, e.message));
        }
    }
    let _ = format!("{}", e);
    Ok(())
}

/// every stage a user can invoke, each under catch_unwind
fn pipeline(rep: &mut Report, src: &str) {
    let r = guarded(|| -> Result<(), String> {
        let stmts = match crate::run::parse_program(src, true) {
            Ok(s) => s,
            Err(_) => return Ok(()),
        };
        let heap = crate::run::new_heap();
        let env = Rc::new(Environment::new());
        let source: Rc<str> = src.into();
        for (s, _) in stmts.iter() {
            let e = match s {
                crate::run::Stmt::Expr(e) | crate::run::Stmt::Output(e) => e,
                _ => continue,
            };
            for w in [1usize, 30, 80] {
                let _ = blots_core::formatter::format_expr(e, Some(w));
            }
            let _ = blots_core::ast_to_source::expr_to_source(e);
            // evaluation of arbitrary generated code can recurse or allocate without bound:
            // only evaluate statements without calls to range / factorial / recursion hazards
            let text = blots_core::ast_to_source::expr_to_source(e);
            if text.contains("range") || text.contains('!') || text.len() > 2000 {
                continue;
            }
            match blots_core::expressions::evaluate_ast(e, heap.clone(), env.clone(), 0, source.clone()) {
                Ok(v) => {
                    let h = heap.borrow();
                    let _ = v.stringify_internal(&h);
                    let _ = v.stringify_external(&h);
                    let _ = v.stringify_for_display(&h);
                    let _ = format!("{}", v);
                    if let Ok(sv) = SerializableValue::from_value(&v, &h) {
                        let j = sv.to_json();
                        let _ = serde_json::to_string(&j);
                        let _ = SerializableValue::from_json(&j);
                    }
                    let _ = blots_core::expressions::validate_portable_value(&v, &h, &env);
                }
                Err(er) => check_error(&er)?,
            }
        }
        Ok(())
    });
    match r {
        Err(p) => rep.finding("oracle", "pipeline-panics", src, &p, "c01.panic"),
        Ok(Err(e)) => rep.finding("oracle", "error-location-outside-text", src, &e, "c01.error-span"),
        Ok(Ok(())) => {}
    }
}
