//! C20 — displayed numbers are well-formed and accurate to 15 significant digits.
//!
//! * correspondence ("model"): `blots_core::values::format_display_number(x)` vs the Lean
//!   model `Display.formatDisplayNumber NumOps.native x` on the boundary set and on random
//!   bit patterns, until every path of the model (nan / inf / zero / scientific / integer /
//!   fraction) has been exercised;
//! * oracle (model-free): the text the real code produces — directly and through the
//!   interpreter's `format("{}", x)` — is judged by the exact referee `display-judge`
//!   (own numeral grammar, exact integer arithmetic in Lean): well-formed numeral,
//!   |numeral − x| < 1 unit in the 15th significant digit of x, integers below 2^53 in
//!   standard notation exact, NaN / infinities by name.

use crate::run::{eval_expr_src, new_heap};
use crate::util::{guarded, Ctx, Model, Report, Rng};
use crate::wire::{hs, unhs};
use blots_core::environment::Environment;
use blots_core::values::{format_display_number, Value};
use std::rc::Rc;

fn ulps(x: f64, d: i64) -> f64 {
    f64::from_bits(x.to_bits().wrapping_add(d as u64))
}

/// deterministic boundary set (does not depend on the seed; order is fixed)
pub fn boundary() -> Vec<f64> {
    let mut v: Vec<f64> = vec![
        0.0, -0.0, f64::NAN, f64::INFINITY, f64::NEG_INFINITY, 1.0, -1.0, 0.5, 1.5, 0.1, 0.2, 0.3,
        0.30000000000000004, 1234567.891, -1234567.891, 123456789012345.6, 12345678901234.56,
        5e-324, f64::MIN_POSITIVE, 2.2250738585072009e-308, f64::MAX, -f64::MAX, 1e21, 1e22, 1e23,
        1.0 / 3.0, 2.0 / 3.0, 100.0, 1000.0, 999.0, 1e3 - 0.5, 12.0, 123.0, 1234.0, 12345.0, 123456.0,
        -999.0, -1000.0, -100000.0, 4503599627370496.5, 4503599627370495.5, 2251799813685247.8,
    ];
    // thresholds ± ulps
    for &t in &[0.0001f64, 1e15, 9007199254740992.0, 1.0] {
        for d in -6..=6 {
            v.push(ulps(t, d));
            v.push(-ulps(t, d));
        }
    }
    // 10^k ± ulps over the whole range
    for k in -323i32..=308 {
        let p: f64 = format!("1e{}", k).parse().unwrap();
        let span: i64 = if (-6..=17).contains(&k) { 12 } else { 2 };
        for d in -span..=span {
            let y = ulps(p, d);
            if y.is_finite() && y != 0.0 {
                v.push(y);
                if (-6..=17).contains(&k) {
                    v.push(-y);
                }
            }
        }
    }
    // values whose 15-digit rounding carries into a new digit, and half-way 16th digits
    for k in -12i32..=18 {
        for tail in ["4", "5", "6", "49", "51", "9", "94", "95"] {
            for s in [format!("9.99999999999999{}e{}", tail, k), format!("1.00000000000000{}e{}", tail, k),
                      format!("1.23456789012345{}e{}", tail, k), format!("-9.99999999999999{}e{}", tail, k)] {
                v.push(s.parse().unwrap());
            }
        }
    }
    // integers around 2^53 and large integral values in the standard range
    for &b in &[9007199254740991.0f64, 9007199254740990.0, 4503599627370497.0, 999999999999999.0, 1e14, 123456789012345.0] {
        v.push(b);
        v.push(-b);
    }
    // subnormals, huge
    for &b in &[0x1u64, 0x2, 0xFFFFFFFFFFFFF, 0x8000000000001, 0x10000000000000, 0x7FEFFFFFFFFFFFFE, 0x7FE0000000000000] {
        v.push(f64::from_bits(b));
        v.push(-f64::from_bits(b));
    }
    v
}

pub fn gen_double(rng: &mut Rng) -> f64 {
    match rng.below(10) {
        0..=2 => f64::from_bits(rng.next()),
        3..=5 => {
            // log-uniform over the standard-notation range and a bit beyond
            let e = (rng.next() % 22_000) as f64 / 1000.0 - 5.5;
            let x = 10f64.powf(e);
            if rng.chance(1, 2) { x } else { -x }
        }
        6..=7 => {
            // short decimals m × 10^k
            let d = 1 + rng.below(17);
            let m = (rng.next() % 10u64.pow(d as u32).max(1)).max(1);
            let k = rng.range(-12, 18) - d as i64;
            let x: f64 = format!("{}e{}", m, k).parse().unwrap();
            if rng.chance(1, 4) { -x } else { x }
        }
        8 => {
            // integers
            let bits = 1 + rng.below(62);
            let n = rng.next() >> (64 - bits);
            let x = n as f64;
            if rng.chance(1, 3) { -x } else { x }
        }
        _ => {
            // near a power of ten
            let k = rng.range(-8, 18);
            let p: f64 = format!("1e{}", k).parse().unwrap();
            ulps(p, rng.range(-40, 40))
        }
    }
}

pub struct Judged {
    pub wf: bool,
    pub kind: String,
    pub exact: bool,
    pub lt1: bool,
    pub half: bool,
    pub err: String,
}

pub fn judge(model: &mut Model, x: f64, text: &str) -> Option<Judged> {
    let r = model.ask(&format!("display-judge {:016x} {}", x.to_bits(), hs(text)));
    let mut j = Judged { wf: false, kind: String::new(), exact: false, lt1: false, half: false, err: String::new() };
    let mut seen = 0;
    for f in r.split(' ') {
        if let Some((k, v)) = f.split_once('=') {
            seen += 1;
            match k {
                "wf" => j.wf = v == "t",
                "kind" => j.kind = v.to_string(),
                "exact" => j.exact = v == "t",
                "lt1" => j.lt1 = v == "t",
                "half" => j.half = v == "t",
                "err" => j.err = v.to_string(),
                _ => {}
            }
        }
    }
    if seen < 6 { None } else { Some(j) }
}

/// "1" followed only by zeros once sign and commas are removed: the display jumped to the
/// next power of ten
fn is_power_of_ten_text(s: &str) -> bool {
    let t: String = s.chars().filter(|c| *c != ',' && *c != '-').collect();
    t.starts_with('1') && t.len() > 1 && t[1..].chars().all(|c| c == '0')
}

/// the display jumped to the power of ten at most 64 ulps above |x|
fn just_below_shown_power_of_ten(x: f64, text: &str) -> bool {
    if !is_power_of_ten_text(text) {
        return false;
    }
    let t: String = text.chars().filter(|c| *c != ',' && *c != '-').collect();
    match t.parse::<f64>() {
        Ok(p) => x.abs() < p && p.to_bits() - x.abs().to_bits() <= 64,
        Err(_) => false,
    }
}

/// the exact error fraction can have hundreds of digits (subnormals): keep reports readable
fn short(err: &str) -> String {
    if err.len() <= 80 { err.to_string() } else { format!("{}… ({} chars)", &err[..60], err.len()) }
}

fn oracle(rep: &mut Report, model: &mut Model, x: f64, text: &str, via: &str) {
    let desc = format!("{:016x} ({:e}) via {}", x.to_bits(), x, via);
    let input = format!("{:016x}", x.to_bits());
    let j = match judge(model, x, text) {
        Some(j) => j,
        None => {
            rep.finding("model", "judge-bad-response", &input, text, "c20.internal.judge");
            return;
        }
    };
    if x.is_nan() || x.is_infinite() {
        let want = if x.is_nan() { "NaN" } else if x > 0.0 { "Infinity" } else { "-Infinity" };
        if text != want {
            rep.finding("oracle", "special-not-named", &input, &format!("{} shows {:?}", desc, text), "c20.special-names");
        }
        return;
    }
    if !j.wf {
        rep.finding("oracle", "malformed-numeral", &input, &format!("{} shows {:?}", desc, text), "c20.wellformed");
        return;
    }
    if j.kind == "nan" || j.kind == "inf" || j.kind == "-inf" {
        rep.finding("oracle", "finite-shown-as-special", &input, &format!("{} shows {:?}", desc, text), "c20.special-names");
        return;
    }
    if !j.lt1 {
        // the one class of defect known on the pinned tree gets its own `what` so that it
        // cannot use up the report slots of any other inaccuracy
        let what = if j.kind == "std" && just_below_shown_power_of_ten(x, text) { "accuracy-carry-to-power-of-ten" } else { "accuracy" };
        rep.finding("oracle", what, &input,
            &format!("{} shows {:?}: off by {} units of the 15th significant digit", desc, text, short(&j.err)), "c20.accuracy");
    }
    if !j.half {
        rep.count("not-correctly-rounded-to-15-digits");
    }
    let integral = x.fract() == 0.0 && x.abs() < 9007199254740992.0;
    if integral && j.kind == "std" && !j.exact {
        rep.finding("oracle", "integer-not-exact", &input, &format!("{} shows {:?} (err {})", desc, text, j.err), "c20.integer-exact");
    }
    if integral && j.kind == "std" {
        rep.count("integers-in-standard-notation");
    }
    rep.count(&format!("numeral.{}", j.kind));
}

pub fn run(ctx: &Ctx, rep: &mut Report) {
    let mut rng = Rng::new(ctx.seed);
    let mut model = Model::spawn(&ctx.model_path);
    let heap = new_heap();

    let mut xs = boundary();
    rep.counters.insert("boundary-set".into(), xs.len() as u64);
    let n_random = ctx.budget(12_000, 400_000);
    for _ in 0..n_random {
        xs.push(gen_double(&mut rng));
    }
    let via_interp_every = if ctx.thorough() { 4 } else { 3 };

    let mut paths: std::collections::BTreeMap<String, u64> = Default::default();
    for (i, &x) in xs.iter().enumerate() {
        let input = format!("{:016x}", x.to_bits());
        let desc = format!("{} ({:e})", input, x);
        rep.case(&desc, x.is_finite() && x != 0.0);
        // the real code
        let real = match guarded(|| format_display_number(x)) {
            Ok(s) => s,
            Err(msg) => {
                rep.finding("oracle", "panic", &input, &msg, "c20.panic");
                continue;
            }
        };
        // correspondence
        let m = model.ask(&format!("display {}", input));
        let mut it = m.split(' ');
        let mtext = it.next().and_then(unhs).unwrap_or_else(|| format!("<bad model response {}>", m));
        let path = it.next().unwrap_or("?").to_string();
        *paths.entry(path.clone()).or_insert(0) += 1;
        if mtext != real {
            rep.finding("model", "display", &input, &format!("{}: impl={:?} model={:?} path={}", desc, real, mtext, path), "c20.model.display");
        }
        // oracle on the function's output
        oracle(rep, &mut model, x, &real, "format_display_number");
        // oracle on what the interpreter's `format` shows
        if i % via_interp_every == 0 || i < 600 {
            let env = Rc::new(Environment::new());
            env.insert("x".to_string(), Value::Number(x));
            match guarded(|| eval_expr_src("format(\"{}\", x)", &heap, &env)) {
                Err(msg) => rep.finding("oracle", "panic", &input, &format!("format(\"{{}}\", x): {}", msg), "c20.panic"),
                Ok(Err(e)) => rep.finding("oracle", "format-fails", &input, &e, "c20.format-fails"),
                Ok(Ok(v)) => {
                    let shown = {
                        let h = heap.borrow();
                        v.as_string(&h).map(|s| s.to_string())
                    };
                    match shown {
                        Ok(s) => {
                            rep.count("via-interpreter");
                            if s != real {
                                rep.count("format-builtin-differs-from-function");
                                oracle(rep, &mut model, x, &s, "format(\"{}\", x)");
                            }
                        }
                        Err(_) => rep.finding("oracle", "format-not-a-string", &input, "", "c20.format-fails"),
                    }
                }
            }
        }
    }
    for (p, n) in &paths {
        rep.counters.insert(format!("path.{}", p), *n);
    }
    for p in ["nan", "inf", "zero", "scientific", "integer", "fraction"] {
        let need = if p == "nan" || p == "inf" { 1 } else { 3 };
        if paths.get(p).copied().unwrap_or(0) < need {
            rep.finding("model", "path-not-covered", p, "a path of the model was not exercised", "c20.internal.coverage");
        }
    }
    rep.notes.push("C20: boundary set = thresholds 0.0001 / 1e15 / 2^53 ± 6 ulps, 10^k ± 2..12 ulps for k = -323..308, 15-digit carry values, subnormals, f64::MAX; random = bit patterns, log-uniform over the standard range, short decimals, integers, neighbourhoods of powers of ten".into());
    rep.notes.push("assumption MagnitudeExact (Props/C20.lean) is what the accuracy oracle hunts counter-examples for: it fails exactly on the c20.accuracy witnesses".into());
    rep.model_requests = model.requests;
}
