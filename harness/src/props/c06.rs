//! C06 — data survives output → JSON → input unchanged.
//!
//! * tree level, in process: `from_value → to_json → from_json → to_value` on a recursive
//!   value generator (finite doubles over bit patterns and boundaries, strings over the
//!   whole scalar range, awkward keys, depth ≤ 6).  Oracle (model-free): `Value::equals`
//!   and a bit-exact / code-point-exact structural comparison.  Correspondence: the same
//!   trees through the Lean model (`value-to-json`, `json-roundtrip`).
//! * documents, in process: generated JSON texts (duplicate keys, unsorted keys, escapes,
//!   number spellings, `__blots_function` objects) parsed by serde_json → `from_json` →
//!   `to_json`.  Oracle: JSON value equality with the document as read by an independent
//!   order-preserving parser (numbers through Rust's correctly rounded `str::parse`).
//!   Correspondence: `json-from`, `json-echo`.
//! * TEXT layer against the Lean model (`Model/JsonText.lean`; theorems `text_roundtrip`,
//!   `value_text_roundtrip` of Props/C06): `serde_json::to_string` against `jsonWrite`
//!   character for character on generated trees and doubles in volume;
//!   `serde_json::from_str::<Value>` against `jsonRead` (accept/reject and tree) on
//!   hand-written texts (white space, escapes, surrogates, number forms, structure errors,
//!   nesting around the recursion limit), generated documents and random edits of valid
//!   texts.  Key `c06.model.json-text`.  Oracle `c06.deep-nesting`: output nested deeper
//!   than serde_json's recursion limit is not accepted as input (known finding).
//! * TEXT layer through the real binary:
//!   literals → `output` → printed JSON → `-i` of a second run → printed JSON, compared
//!   bit for bit; documents → `output r = inputs` → compared as JSON values; number texts
//!   through serde_json's parser/printer in volume.

use crate::run::new_heap;
use crate::tv::{self, TV};
use crate::util::{guarded, Ctx, Model, Report, Rng};
use crate::wire;
use blots_core::functions::BuiltInFunction;
use blots_core::heap::{Heap, HeapPointer, HeapValue};
use blots_core::values::{SerializableValue, Value};

/// order-preserving JSON text reader / writer, independent of serde_json
pub mod jt {
    #[derive(Clone, Debug, PartialEq)]
    pub enum JT {
        Null,
        Bool(bool),
        /// the number token as written
        Num(String),
        Str(String),
        Arr(Vec<JT>),
        /// members in document order, duplicates kept
        Obj(Vec<(String, JT)>),
    }

    struct P<'a> {
        s: &'a [u8],
        i: usize,
    }

    impl<'a> P<'a> {
        fn ws(&mut self) {
            while self.i < self.s.len() && matches!(self.s[self.i], b' ' | b'\t' | b'\n' | b'\r') {
                self.i += 1;
            }
        }
        fn eat(&mut self, lit: &[u8]) -> bool {
            if self.s[self.i..].starts_with(lit) {
                self.i += lit.len();
                true
            } else {
                false
            }
        }
        fn hex4(&mut self) -> Option<u32> {
            if self.i + 4 > self.s.len() {
                return None;
            }
            let t = std::str::from_utf8(&self.s[self.i..self.i + 4]).ok()?;
            if !t.bytes().all(|b| b.is_ascii_hexdigit()) {
                return None;
            }
            self.i += 4;
            u32::from_str_radix(t, 16).ok()
        }
        fn string(&mut self) -> Option<String> {
            if !self.eat(b"\"") {
                return None;
            }
            let mut out: Vec<u8> = vec![];
            loop {
                let b = *self.s.get(self.i)?;
                self.i += 1;
                match b {
                    b'"' => break,
                    b'\\' => {
                        let e = *self.s.get(self.i)?;
                        self.i += 1;
                        let c: char = match e {
                            b'"' => '"',
                            b'\\' => '\\',
                            b'/' => '/',
                            b'b' => '\u{8}',
                            b'f' => '\u{c}',
                            b'n' => '\n',
                            b'r' => '\r',
                            b't' => '\t',
                            b'u' => {
                                let hi = self.hex4()?;
                                if (0xD800..0xDC00).contains(&hi) {
                                    if !self.eat(b"\\u") {
                                        return None;
                                    }
                                    let lo = self.hex4()?;
                                    if !(0xDC00..0xE000).contains(&lo) {
                                        return None;
                                    }
                                    char::from_u32(0x10000 + ((hi - 0xD800) << 10) + (lo - 0xDC00))?
                                } else if (0xDC00..0xE000).contains(&hi) {
                                    return None;
                                } else {
                                    char::from_u32(hi)?
                                }
                            }
                            _ => return None,
                        };
                        let mut buf = [0u8; 4];
                        out.extend_from_slice(c.encode_utf8(&mut buf).as_bytes());
                    }
                    0..=0x1f => return None,
                    _ => out.push(b),
                }
            }
            String::from_utf8(out).ok()
        }
        fn number(&mut self) -> Option<String> {
            let st = self.i;
            if self.s.get(self.i) == Some(&b'-') {
                self.i += 1;
            }
            match self.s.get(self.i) {
                Some(b'0') => self.i += 1,
                Some(b'1'..=b'9') => {
                    while matches!(self.s.get(self.i), Some(b'0'..=b'9')) {
                        self.i += 1;
                    }
                }
                _ => return None,
            }
            if self.s.get(self.i) == Some(&b'.') {
                self.i += 1;
                if !matches!(self.s.get(self.i), Some(b'0'..=b'9')) {
                    return None;
                }
                while matches!(self.s.get(self.i), Some(b'0'..=b'9')) {
                    self.i += 1;
                }
            }
            if matches!(self.s.get(self.i), Some(b'e') | Some(b'E')) {
                self.i += 1;
                if matches!(self.s.get(self.i), Some(b'+') | Some(b'-')) {
                    self.i += 1;
                }
                if !matches!(self.s.get(self.i), Some(b'0'..=b'9')) {
                    return None;
                }
                while matches!(self.s.get(self.i), Some(b'0'..=b'9')) {
                    self.i += 1;
                }
            }
            Some(String::from_utf8_lossy(&self.s[st..self.i]).to_string())
        }
        fn value(&mut self, depth: usize) -> Option<JT> {
            if depth > 200 {
                return None;
            }
            self.ws();
            let b = *self.s.get(self.i)?;
            let v = match b {
                b'n' => {
                    if self.eat(b"null") { JT::Null } else { return None }
                }
                b't' => {
                    if self.eat(b"true") { JT::Bool(true) } else { return None }
                }
                b'f' => {
                    if self.eat(b"false") { JT::Bool(false) } else { return None }
                }
                b'"' => JT::Str(self.string()?),
                b'[' => {
                    self.i += 1;
                    let mut xs = vec![];
                    self.ws();
                    if self.s.get(self.i) == Some(&b']') {
                        self.i += 1;
                    } else {
                        loop {
                            xs.push(self.value(depth + 1)?);
                            self.ws();
                            match self.s.get(self.i) {
                                Some(b',') => self.i += 1,
                                Some(b']') => {
                                    self.i += 1;
                                    break;
                                }
                                _ => return None,
                            }
                        }
                    }
                    JT::Arr(xs)
                }
                b'{' => {
                    self.i += 1;
                    let mut ms = vec![];
                    self.ws();
                    if self.s.get(self.i) == Some(&b'}') {
                        self.i += 1;
                    } else {
                        loop {
                            self.ws();
                            let k = self.string()?;
                            self.ws();
                            if !self.eat(b":") {
                                return None;
                            }
                            let v = self.value(depth + 1)?;
                            ms.push((k, v));
                            self.ws();
                            match self.s.get(self.i) {
                                Some(b',') => self.i += 1,
                                Some(b'}') => {
                                    self.i += 1;
                                    break;
                                }
                                _ => return None,
                            }
                        }
                    }
                    JT::Obj(ms)
                }
                _ => JT::Num(self.number()?),
            };
            Some(v)
        }
    }

    /// the whole text is exactly one JSON value (surrounding white space allowed)
    pub fn parse(text: &str) -> Option<JT> {
        let mut p = P { s: text.as_bytes(), i: 0 };
        let v = p.value(0)?;
        p.ws();
        if p.i == p.s.len() { Some(v) } else { None }
    }

    /// the double a JSON number token denotes: Rust's `str::parse::<f64>` is correctly
    /// rounded (cross-checked against the Lean `parseDec` specification by the harness)
    pub fn num_bits(tok: &str) -> Option<u64> {
        tok.parse::<f64>().ok().map(|x| x.to_bits())
    }

    pub fn esc(s: &str) -> String {
        let mut o = String::from("\"");
        for c in s.chars() {
            match c {
                '"' => o.push_str("\\\""),
                '\\' => o.push_str("\\\\"),
                c if (c as u32) < 0x20 => o.push_str(&format!("\\u{:04x}", c as u32)),
                c => o.push(c),
            }
        }
        o.push('"');
        o
    }

    impl JT {
        /// plain text (minimal escapes, no white space)
        pub fn text(&self) -> String {
            match self {
                JT::Null => "null".into(),
                JT::Bool(b) => b.to_string(),
                JT::Num(t) => t.clone(),
                JT::Str(s) => esc(s),
                JT::Arr(xs) => format!("[{}]", xs.iter().map(|x| x.text()).collect::<Vec<_>>().join(",")),
                JT::Obj(ms) => format!(
                    "{{{}}}",
                    ms.iter().map(|(k, v)| format!("{}:{}", esc(k), v.text())).collect::<Vec<_>>().join(",")
                ),
            }
        }
        /// wire form for the Lean model (members in document order)
        pub fn wire(&self) -> String {
            match self {
                JT::Null => "(jnull)".into(),
                JT::Bool(b) => format!("(jbool {})", if *b { "t" } else { "f" }),
                JT::Num(t) => format!("(jnum {:016x})", num_bits(t).unwrap_or(0)),
                JT::Str(s) => format!("(jstr {})", crate::wire::hs(s)),
                JT::Arr(xs) => {
                    let mut s = String::from("(jarr");
                    for x in xs {
                        s.push(' ');
                        s.push_str(&x.wire());
                    }
                    s.push(')');
                    s
                }
                JT::Obj(ms) => {
                    let mut s = String::from("(jobj");
                    for (k, v) in ms {
                        s.push_str(&format!(" ({} {})", crate::wire::hs(k), v.wire()));
                    }
                    s.push(')');
                    s
                }
            }
        }
        /// effective member: the LAST one of that name
        pub fn get(&self, k: &str) -> Option<&JT> {
            match self {
                JT::Obj(ms) => ms.iter().rev().find(|(k2, _)| k2 == k).map(|(_, v)| v),
                _ => None,
            }
        }
        /// JSON value equality: numbers as doubles, objects as maps (last duplicate wins).
        /// Err((numbers_only, path)) on the first difference.
        pub fn sem_eq(&self, other: &JT, path: &str) -> Result<(), (bool, String)> {
            match (self, other) {
                (JT::Null, JT::Null) => Ok(()),
                (JT::Bool(a), JT::Bool(b)) if a == b => Ok(()),
                (JT::Str(a), JT::Str(b)) if a == b => Ok(()),
                (JT::Num(a), JT::Num(b)) => {
                    let (x, y) = (a.parse::<f64>().unwrap_or(f64::NAN), b.parse::<f64>().unwrap_or(f64::NAN));
                    if x == y { Ok(()) } else { Err((true, format!("{}: {} vs {}", path, a, b))) }
                }
                (JT::Arr(a), JT::Arr(b)) => {
                    if a.len() != b.len() {
                        return Err((false, format!("{}: array lengths {} vs {}", path, a.len(), b.len())));
                    }
                    for (i, (x, y)) in a.iter().zip(b.iter()).enumerate() {
                        x.sem_eq(y, &format!("{}[{}]", path, i))?;
                    }
                    Ok(())
                }
                (JT::Obj(a), JT::Obj(b)) => {
                    for (k, _) in a {
                        if other.get(k).is_none() {
                            return Err((false, format!("{}: key {:?} missing on the right", path, k)));
                        }
                    }
                    for (k, _) in b {
                        if self.get(k).is_none() {
                            return Err((false, format!("{}: key {:?} missing on the left", path, k)));
                        }
                    }
                    for (k, _) in a {
                        self.get(k).unwrap().sem_eq(other.get(k).unwrap(), &format!("{}.{:?}", path, k))?;
                    }
                    Ok(())
                }
                _ => Err((false, format!("{}: {} vs {}", path, self.text(), other.text()))),
            }
        }
    }
}

use jt::JT;

pub struct RunOut {
    pub code: Option<i32>,
    pub stdout: String,
    pub stderr: String,
}

/// run the real binary under `timeout 20`; stdin is closed unless given
pub fn run_blots(bin: &str, args: &[String], stdin: Option<&[u8]>, cwd: &std::path::Path) -> RunOut {
    use std::io::Write;
    use std::process::{Command, Stdio};
    let mut cmd = Command::new("timeout");
    cmd.arg("20").arg(bin);
    for a in args {
        cmd.arg(a);
    }
    cmd.current_dir(cwd).stdout(Stdio::piped()).stderr(Stdio::piped()).env("NO_COLOR", "1");
    match stdin {
        None => {
            cmd.stdin(Stdio::null());
        }
        Some(_) => {
            cmd.stdin(Stdio::piped());
        }
    }
    let mut child = match cmd.spawn() {
        Ok(c) => c,
        Err(e) => return RunOut { code: None, stdout: String::new(), stderr: format!("spawn failed: {}", e) },
    };
    if let Some(data) = stdin {
        if let Some(mut si) = child.stdin.take() {
            let _ = si.write_all(data);
            // dropped here: the pipe is closed
        }
    }
    match child.wait_with_output() {
        Ok(o) => RunOut {
            code: o.status.code(),
            stdout: String::from_utf8_lossy(&o.stdout).to_string(),
            stderr: String::from_utf8_lossy(&o.stderr).to_string(),
        },
        Err(e) => RunOut { code: None, stdout: String::new(), stderr: format!("wait failed: {}", e) },
    }
}

pub fn scratch_dir(tag: &str) -> std::path::PathBuf {
    let d = std::env::temp_dir().join(format!("vharness-{}-{}", std::process::id(), tag));
    let _ = std::fs::create_dir_all(&d);
    d
}

// ---------------------------------------------------------------- generators

const KEYS: &[&str] = &[
    "", "a", "b", "k", "1", "0", "-1", "1e3", "01", "__proto__", "constructor", "value_1", "value_2", "a b", "é",
    "日本", "😀", "\"", "\\", "a\"b\\c", "\u{0}", "x\ny", "\u{7f}", "__blots_function", "__blots_function ", "if", "inputs",
    "A", "aa", "Z", "\u{ffff}", "\u{10000}",
];

pub fn gen_char(rng: &mut Rng) -> char {
    loop {
        let c = match rng.below(12) {
            0 => rng.below(0x20) as u32,
            1 => *rng.pick(&[0x22u32, 0x5c, 0x2f, 0x27, 0x7f, 0x80, 0x9f, 0xa0, 0x2028, 0x2029, 0xfeff, 0xfffd]),
            2 | 3 | 4 => 0x20 + rng.below(0x5f) as u32,
            5 => 0x80 + rng.below(0x780) as u32,
            6 => *rng.pick(&[0xd7ffu32, 0xe000, 0xfffe, 0xffff, 0x10000, 0x10ffff, 0x1f600, 0xfdd0, 0x7ff, 0x800]),
            7 | 8 => rng.below(0x10000) as u32,
            9 => 0x10000 + rng.below(0x100000) as u32,
            _ => *rng.pick(&[0x61u32, 0x62, 0x30, 0x20, 0xe9, 0x65e5]),
        };
        if let Some(ch) = char::from_u32(c) {
            return ch;
        }
    }
}

pub fn gen_string(rng: &mut Rng) -> String {
    match rng.below(6) {
        0 => rng.pick(tv::STRS).to_string(),
        1 => rng.pick(KEYS).to_string(),
        _ => {
            let n = rng.below(7);
            (0..n).map(|_| gen_char(rng)).collect()
        }
    }
}

fn gen_finite(rng: &mut Rng) -> f64 {
    loop {
        let x = match rng.below(4) {
            0 | 1 => f64::from_bits(rng.next()),
            _ => tv::gen_num(rng),
        };
        if x.is_finite() {
            return x;
        }
    }
}

/// recursive data value; `finite_only` excludes NaN/±inf
pub fn gen_value(rng: &mut Rng, depth: usize, finite_only: bool) -> TV {
    let k = if depth == 0 { rng.below(4) } else { rng.below(8) };
    match k {
        0 => {
            if finite_only || rng.chance(9, 10) {
                TV::Num(gen_finite(rng))
            } else {
                TV::Num(*rng.pick(&[f64::INFINITY, f64::NEG_INFINITY, f64::NAN]))
            }
        }
        1 => match rng.below(3) {
            0 => TV::Bool(true),
            1 => TV::Bool(false),
            _ => TV::Null,
        },
        2 | 3 => TV::Str(gen_string(rng)),
        4 | 5 => {
            let n = rng.below(4);
            TV::List((0..n).map(|_| gen_value(rng, depth - 1, finite_only)).collect())
        }
        _ => {
            let n = rng.below(5);
            let mut r: Vec<(String, TV)> = vec![];
            if rng.chance(1, 12) {
                r.push(("__blots_function".into(), TV::Str(rng.pick(FN_STRINGS).to_string())));
            }
            for _ in 0..n {
                let k = if rng.chance(2, 3) { rng.pick(KEYS).to_string() } else { gen_string(rng) };
                if r.iter().any(|(k2, _)| *k2 == k) {
                    continue;
                }
                let v = if k == "__blots_function" && rng.chance(2, 3) {
                    TV::Str(rng.pick(FN_STRINGS).to_string())
                } else {
                    gen_value(rng, depth - 1, finite_only)
                };
                r.push((k, v));
            }
            TV::Record(r)
        }
    }
}

/// candidate texts under `__blots_function`: built-in names, lambdas, things that are neither
pub const FN_STRINGS: &[&str] = &[
    "map", "sum", "x => x + 1", "(a, b?) => a", "(...r) => r", "hello world", "x => x +", "", "inf", "1", "x",
    "mapp", " map", "x => y", "() => 1", "output x = 1",
];

fn all_finite(v: &TV) -> bool {
    match v {
        TV::Num(n) => n.is_finite(),
        TV::List(l) => l.iter().all(all_finite),
        TV::Record(r) => r.iter().all(|(_, x)| all_finite(x)),
        _ => true,
    }
}

/// is `{"__blots_function": s}` read as a function?  (the exclusion clause of the
/// property; decided with the code's own rule)
pub fn reads_as_function(s: &str) -> bool {
    if BuiltInFunction::from_ident(s).is_some() {
        return true;
    }
    let j = serde_json::json!({ "__blots_function": s });
    matches!(guarded(|| SerializableValue::from_json(&j)), Ok(SerializableValue::Lambda(_)))
}

fn tv_fn_shaped(v: &TV) -> bool {
    match v {
        TV::List(l) => l.iter().any(tv_fn_shaped),
        TV::Record(r) => {
            r.iter().any(|(k, x)| k == "__blots_function" && matches!(x, TV::Str(s) if reads_as_function(s)))
                || r.iter().any(|(_, x)| tv_fn_shaped(x))
        }
        _ => false,
    }
}

fn jt_fn_shaped(v: &JT) -> bool {
    match v {
        JT::Arr(l) => l.iter().any(jt_fn_shaped),
        JT::Obj(ms) => {
            matches!(v.get("__blots_function"), Some(JT::Str(s)) if reads_as_function(s))
                || ms.iter().any(|(_, x)| jt_fn_shaped(x))
        }
        _ => false,
    }
}

fn collect_fn_strings_tv(v: &TV, out: &mut Vec<String>) {
    match v {
        TV::List(l) => l.iter().for_each(|x| collect_fn_strings_tv(x, out)),
        TV::Record(r) => {
            for (k, x) in r {
                if k == "__blots_function" {
                    if let TV::Str(s) = x {
                        out.push(s.clone());
                    }
                }
                collect_fn_strings_tv(x, out);
            }
        }
        _ => {}
    }
}

fn collect_fn_strings_jt(v: &JT, out: &mut Vec<String>) {
    match v {
        JT::Arr(l) => l.iter().for_each(|x| collect_fn_strings_jt(x, out)),
        JT::Obj(ms) => {
            for (k, x) in ms {
                if k == "__blots_function" {
                    if let JT::Str(s) = x {
                        out.push(s.clone());
                    }
                }
                collect_fn_strings_jt(x, out);
            }
        }
        _ => {}
    }
}

/// the `(fns …)` table for the model: what the real `parse_function_source` answers
pub fn fns_table(strings: &[String]) -> String {
    let mut rows = String::from("(fns");
    let mut seen: Vec<&String> = vec![];
    for s in strings {
        if seen.contains(&s) {
            continue;
        }
        seen.push(s);
        let j = serde_json::json!({ "__blots_function": s });
        if let Ok(SerializableValue::Lambda(def)) = guarded(|| SerializableValue::from_json(&j)) {
            rows.push_str(&format!(" ({} {} {})", wire::hs(s), wire::largs(&def.args), wire::hs(&def.body)));
        }
    }
    rows.push(')');
    rows
}

// ---------------------------------------------------------------- wire forms of real trees

pub fn serde_wire(v: &serde_json::Value) -> String {
    match v {
        serde_json::Value::Null => "(jnull)".into(),
        serde_json::Value::Bool(b) => format!("(jbool {})", if *b { "t" } else { "f" }),
        serde_json::Value::Number(n) => format!("(jnum {:016x})", n.as_f64().unwrap_or(0.0).to_bits()),
        serde_json::Value::String(s) => format!("(jstr {})", wire::hs(s)),
        serde_json::Value::Array(xs) => {
            let mut s = String::from("(jarr");
            for x in xs {
                s.push(' ');
                s.push_str(&serde_wire(x));
            }
            s.push(')');
            s
        }
        serde_json::Value::Object(ms) => {
            let mut s = String::from("(jobj");
            for (k, x) in ms {
                s.push_str(&format!(" ({} {})", wire::hs(k), serde_wire(x)));
            }
            s.push(')');
            s
        }
    }
}

/// serde tree → JT (numbers as the shortest text of the double serde holds)
fn serde_jt(v: &serde_json::Value) -> JT {
    match v {
        serde_json::Value::Null => JT::Null,
        serde_json::Value::Bool(b) => JT::Bool(*b),
        serde_json::Value::Number(n) => JT::Num(format!("{:?}", n.as_f64().unwrap_or(f64::NAN))),
        serde_json::Value::String(s) => JT::Str(s.clone()),
        serde_json::Value::Array(xs) => JT::Arr(xs.iter().map(serde_jt).collect()),
        serde_json::Value::Object(ms) => JT::Obj(ms.iter().map(|(k, x)| (k.clone(), serde_jt(x))).collect()),
    }
}

pub fn sv_wire(sv: &SerializableValue) -> String {
    match sv {
        SerializableValue::Number(n) => wire::num(*n),
        SerializableValue::Bool(b) => format!("(bool {})", if *b { "t" } else { "f" }),
        SerializableValue::Null => "(null)".into(),
        SerializableValue::String(s) => format!("(str {})", wire::hs(s)),
        SerializableValue::List(xs) => {
            let mut s = String::from("(list");
            for x in xs {
                s.push(' ');
                s.push_str(&sv_wire(x));
            }
            s.push(')');
            s
        }
        SerializableValue::Record(r) => {
            let mut s = String::from("(record");
            for (k, x) in r {
                s.push_str(&format!(" ({} {})", wire::hs(k), sv_wire(x)));
            }
            s.push(')');
            s
        }
        SerializableValue::Lambda(def) => format!("(svlambda {} {})", wire::largs(&def.args), wire::hs(&def.body)),
        SerializableValue::BuiltIn(n) => format!("(builtin {})", n),
    }
}

/// bit-exact / code-point-exact comparison of a generated tree with a heap value
/// (record key order ignored)
fn tree_exact(t: &TV, v: &Value, heap: &Heap, path: &str) -> Result<(), String> {
    match (t, v) {
        (TV::Num(a), Value::Number(b)) => {
            if a.to_bits() == b.to_bits() { Ok(()) } else { Err(format!("{}: {:016x} vs {:016x}", path, a.to_bits(), b.to_bits())) }
        }
        (TV::Bool(a), Value::Bool(b)) if a == b => Ok(()),
        (TV::Null, Value::Null) => Ok(()),
        (TV::Str(a), Value::String(p)) => match p.reify(heap) {
            HeapValue::String(s) if s == a => Ok(()),
            other => Err(format!("{}: string {:?} vs {:?}", path, a, other)),
        },
        (TV::List(a), Value::List(p)) => match p.reify(heap) {
            HeapValue::List(l) => {
                if l.len() != a.len() {
                    return Err(format!("{}: list length {} vs {}", path, a.len(), l.len()));
                }
                for (i, (x, y)) in a.iter().zip(l.iter()).enumerate() {
                    tree_exact(x, y, heap, &format!("{}[{}]", path, i))?;
                }
                Ok(())
            }
            _ => Err(format!("{}: bad list pointer", path)),
        },
        (TV::Record(a), Value::Record(p)) => match p.reify(heap) {
            HeapValue::Record(r) => {
                if r.len() != a.len() {
                    return Err(format!("{}: record size {} vs {}", path, a.len(), r.len()));
                }
                for (k, x) in a {
                    match r.get(k) {
                        Some(y) => tree_exact(x, y, heap, &format!("{}.{:?}", path, k))?,
                        None => return Err(format!("{}: key {:?} lost", path, k)),
                    }
                }
                Ok(())
            }
            _ => Err(format!("{}: bad record pointer", path)),
        },
        _ => Err(format!("{}: kind {} vs {}", path, t.kind(), v.get_type())),
    }
}

/// generated tree vs printed JSON (numbers through the correctly rounded parser)
pub fn tv_vs_jt(t: &TV, j: &JT, path: &str) -> Result<(), (bool, String)> {
    match (t, j) {
        (TV::Num(a), JT::Num(tok)) => match jt::num_bits(tok) {
            Some(b) if b == a.to_bits() => Ok(()),
            other => Err((true, format!("{}: {:016x} printed/read as {} = {:?}", path, a.to_bits(), tok, other.map(|b| format!("{:016x}", b))))),
        },
        (TV::Bool(a), JT::Bool(b)) if a == b => Ok(()),
        (TV::Null, JT::Null) => Ok(()),
        (TV::Str(a), JT::Str(b)) => {
            if a == b { Ok(()) } else { Err((false, format!("{}: string {:?} vs {:?}", path, a, b))) }
        }
        (TV::List(a), JT::Arr(b)) => {
            if a.len() != b.len() {
                return Err((false, format!("{}: length {} vs {}", path, a.len(), b.len())));
            }
            for (i, (x, y)) in a.iter().zip(b.iter()).enumerate() {
                tv_vs_jt(x, y, &format!("{}[{}]", path, i))?;
            }
            Ok(())
        }
        (TV::Record(a), JT::Obj(b)) => {
            if a.len() != b.len() {
                return Err((false, format!("{}: record size {} vs {} members", path, a.len(), b.len())));
            }
            for (k, x) in a {
                match j.get(k) {
                    Some(y) => tv_vs_jt(x, y, &format!("{}.{:?}", path, k))?,
                    None => return Err((false, format!("{}: key {:?} lost", path, k))),
                }
            }
            Ok(())
        }
        _ => Err((false, format!("{}: {} vs {}", path, t.kind(), j.text().chars().take(60).collect::<String>()))),
    }
}

// ---------------------------------------------------------------- documents

fn num_text(rng: &mut Rng) -> String {
    let x = gen_finite(rng);
    match rng.below(10) {
        0 => format!("{}", rng.range(-1000, 1000)),
        1 => format!("{}", rng.next()),                             // u64 range
        2 => format!("{}", rng.next() as i64),                      // i64 range
        3 => format!("{}{}", rng.next(), rng.next()),               // beyond u64
        4 => format!("{:e}", x),
        5 => format!("{:.17e}", x).replace('e', "E"),
        6 => format!("{:?}", x),
        7 => rng.pick(&["0", "-0", "0.0", "-0.0", "1e0", "1E+2", "1e-2", "9007199254740993", "18446744073709551615",
                        "18446744073709551616", "-9223372036854775808", "-9223372036854775809", "0.1", "0.30000000000000004",
                        "1.7976931348623157e308", "5e-324", "2.5e-324", "2.4703282292062328e-324", "4.9e-324",
                        "0.000001", "123456789012345678901234567890", "1e22", "1e23", "8.41e21", "2.2250738585072011e-308"]).to_string(),
        8 => {
            // many digits
            let mut s = format!("{}.", rng.below(1000));
            for _ in 0..(1 + rng.below(30)) {
                s.push((b'0' + rng.below(10) as u8) as char);
            }
            s
        }
        _ => format!("{}", x),
    }
}

pub fn gen_doc(rng: &mut Rng, depth: usize, fn_objects: bool) -> JT {
    let k = if depth == 0 { rng.below(4) } else { rng.below(8) };
    match k {
        0 => {
            let t = num_text(rng);
            // keep only tokens that denote a finite double (serde rejects the others)
            match t.parse::<f64>() {
                Ok(x) if x.is_finite() && jt::parse(&t).is_some() => JT::Num(t),
                _ => JT::Num("1".into()),
            }
        }
        1 => match rng.below(3) {
            0 => JT::Bool(true),
            1 => JT::Bool(false),
            _ => JT::Null,
        },
        2 | 3 => JT::Str(gen_string(rng)),
        4 | 5 => JT::Arr((0..rng.below(4)).map(|_| gen_doc(rng, depth - 1, fn_objects)).collect()),
        _ => {
            let n = rng.below(6);
            let mut ms: Vec<(String, JT)> = vec![];
            if fn_objects && rng.chance(1, 4) {
                ms.push(("__blots_function".into(), JT::Str(rng.pick(FN_STRINGS).to_string())));
            }
            for _ in 0..n {
                let k = if !ms.is_empty() && rng.chance(1, 5) {
                    ms[rng.below(ms.len())].0.clone()          // duplicate key
                } else if rng.chance(2, 3) {
                    rng.pick(KEYS).to_string()
                } else {
                    gen_string(rng)
                };
                if k == "__blots_function" && !fn_objects {
                    continue;
                }
                let v = if k == "__blots_function" && rng.chance(3, 4) {
                    JT::Str(rng.pick(FN_STRINGS).to_string())
                } else {
                    gen_doc(rng, depth - 1, fn_objects)
                };
                ms.push((k, v));
            }
            JT::Obj(ms)
        }
    }
}

fn esc_random(s: &str, rng: &mut Rng) -> String {
    let mut o = String::from("\"");
    for c in s.chars() {
        let must = c == '"' || c == '\\' || (c as u32) < 0x20;
        if must || rng.chance(1, 6) {
            match c {
                '"' if rng.chance(1, 2) => o.push_str("\\\""),
                '\\' if rng.chance(1, 2) => o.push_str("\\\\"),
                '/' if rng.chance(1, 2) => o.push_str("\\/"),
                '\n' if rng.chance(1, 2) => o.push_str("\\n"),
                '\t' if rng.chance(1, 2) => o.push_str("\\t"),
                '\r' if rng.chance(1, 2) => o.push_str("\\r"),
                '\u{8}' if rng.chance(1, 2) => o.push_str("\\b"),
                '\u{c}' if rng.chance(1, 2) => o.push_str("\\f"),
                c => {
                    let mut buf = [0u16; 2];
                    for u in c.encode_utf16(&mut buf) {
                        if rng.chance(1, 2) {
                            o.push_str(&format!("\\u{:04x}", u));
                        } else {
                            o.push_str(&format!("\\u{:04X}", u));
                        }
                    }
                }
            }
        } else {
            o.push(c);
        }
    }
    o.push('"');
    o
}

fn ws(rng: &mut Rng) -> &'static str {
    *rng.pick(&["", "", "", " ", "\n", "\t ", "\r\n"])
}

/// document text with random escapes and white space
pub fn doc_text(j: &JT, rng: &mut Rng) -> String {
    match j {
        JT::Null => "null".into(),
        JT::Bool(b) => b.to_string(),
        JT::Num(t) => t.clone(),
        JT::Str(s) => esc_random(s, rng),
        JT::Arr(xs) => {
            let mut o = format!("[{}", ws(rng));
            for (i, x) in xs.iter().enumerate() {
                if i > 0 {
                    o.push_str(&format!("{},{}", ws(rng), ws(rng)));
                }
                o.push_str(&doc_text(x, rng));
            }
            o.push_str(&format!("{}]", ws(rng)));
            o
        }
        JT::Obj(ms) => {
            let mut o = format!("{{{}", ws(rng));
            for (i, (k, x)) in ms.iter().enumerate() {
                if i > 0 {
                    o.push_str(&format!("{},{}", ws(rng), ws(rng)));
                }
                o.push_str(&format!("{}{}:{}{}", esc_random(k, rng), ws(rng), ws(rng), doc_text(x, rng)));
            }
            o.push_str(&format!("{}}}", ws(rng)));
            o
        }
    }
}

// ---------------------------------------------------------------- the checks

const NUMKEY: &str = "c06.json-number-roundtrip";

/// (i) in-process tree mapping of one generated value
fn check_tree(v: &TV, model: &mut Model, rep: &mut Report) {
    let repr = format!("{:?}", v);
    let heap = new_heap();
    let val = v.to_value(&heap);
    let res = guarded(|| {
        let sv = SerializableValue::from_value(&val, &heap.borrow()).map_err(|e| e.to_string())?;
        let j = sv.to_json();
        let sv2 = SerializableValue::from_json(&j);
        let val2 = sv2.to_value(&mut heap.borrow_mut()).map_err(|e| e.to_string());
        Ok::<_, String>((j, val2))
    });
    let data = v.is_data();
    let checkable = data && all_finite(v) && !tv_fn_shaped(v);
    rep.case(&repr, checkable);
    let (j, val2) = match res {
        Err(p) => {
            rep.finding("oracle", "panic", &repr, &format!("JSON tree mapping panicked: {}", p), "c06.panic");
            return;
        }
        Ok(Err(e)) => {
            if data {
                rep.finding("oracle", "tree-roundtrip", &repr, &format!("from_value failed on a data value: {}", e), "c06.tree-roundtrip");
            }
            return;
        }
        Ok(Ok(x)) => x,
    };
    // oracle
    if checkable {
        rep.count("tree.oracle-cases");
        match &val2 {
            Err(e) => rep.finding("oracle", "tree-roundtrip", &repr, &format!("to_value failed: {}", e), "c06.tree-roundtrip"),
            Ok(v2) => {
                let h = heap.borrow();
                match val.equals(v2, &h) {
                    Ok(true) => {}
                    other => rep.finding("oracle", "tree-roundtrip", &repr, &format!("reloaded value is not .== the original: {:?}", other.map_err(|e| e.to_string())), "c06.tree-roundtrip"),
                }
                if let Err(d) = tree_exact(v, v2, &h, "$") {
                    rep.finding("oracle", "tree-roundtrip", &repr, &format!("not bit-exact / code-point-exact: {}", d), "c06.tree-roundtrip");
                }
            }
        }
    } else {
        rep.count("tree.model-only-cases");
    }
    // model
    let vw = wire::value(&val, &heap.borrow());
    let m1 = model.ask(&format!("value-to-json {}", vw));
    let r1 = format!("(ok {})", serde_wire(&j));
    if m1 != r1 {
        rep.finding("model", "to-json", &repr, &format!("code {} model {}", r1, m1), "c06.model.to-json");
    }
    let mut fs = vec![];
    collect_fn_strings_tv(v, &mut fs);
    let m2 = model.ask(&format!("json-roundtrip {} {}", fns_table(&fs), vw));
    let r2 = match &val2 {
        Ok(v2) => {
            let w2 = wire::value(v2, &heap.borrow());
            // a record read back as a lambda: the model has no body parser here
            if w2.contains("(lambda ") { None } else { Some(format!("(ok {})", w2)) }
        }
        Err(_) => Some("(err other)".to_string()),
    };
    if let Some(r2) = r2 {
        if m2 != r2 {
            rep.finding("model", "roundtrip", &repr, &format!("code {} model {}", r2, m2), "c06.model.roundtrip");
        }
    } else {
        rep.count("tree.lambda-readback-skipped");
    }
}

/// documents in process
fn check_doc(doc: &JT, text: &str, model: &mut Model, rep: &mut Report) {
    let parsed = guarded(|| serde_json::from_str::<serde_json::Value>(text));
    let fnsh = jt_fn_shaped(doc);
    rep.case(text, !fnsh);
    let sj = match parsed {
        Err(p) => {
            rep.finding("oracle", "panic", text, &format!("serde_json panicked: {}", p), "c06.panic");
            return;
        }
        Ok(Err(e)) => {
            rep.finding("oracle", "document-echo", text, &format!("a valid document is rejected: {}", e), "c06.document-echo");
            return;
        }
        Ok(Ok(v)) => v,
    };
    let out = guarded(|| {
        let sv = SerializableValue::from_json(&sj);
        let j2 = sv.to_json();
        (sv, j2)
    });
    let (sv, j2) = match out {
        Err(p) => {
            rep.finding("oracle", "panic", text, &format!("from_json/to_json panicked: {}", p), "c06.panic");
            return;
        }
        Ok(x) => x,
    };
    if !fnsh {
        rep.count("doc.oracle-cases");
        if let Err((numeric, d)) = doc.sem_eq(&serde_jt(&j2), "$") {
            if numeric {
                rep.finding("oracle", "json-number", text, &format!("a number of the document is reproduced as a different double: {}", d), NUMKEY);
            } else {
                rep.finding("oracle", "document-echo", text, &format!("document not reproduced: {}", d), "c06.document-echo");
            }
        }
    }
    // model (the model takes the numbers as the doubles serde produced: send serde's view
    // of the numbers but the document's member order and duplicates)
    let mut fs = vec![];
    collect_fn_strings_jt(doc, &mut fs);
    let fns = fns_table(&fs);
    let dw = doc.wire();
    let serde_nums_agree = doc.sem_eq(&serde_jt(&sj), "$").is_ok();
    if serde_nums_agree {
        let m1 = model.ask(&format!("json-from {} {}", fns, dw));
        let r1 = sv_wire(&sv);
        if m1 != r1 {
            rep.finding("model", "from-json", text, &format!("code {} model {}", r1, m1), "c06.model.from-json");
        }
        let m2 = model.ask(&format!("json-echo {} {}", fns, dw));
        let r2 = serde_wire(&j2);
        if m2 != r2 {
            rep.finding("model", "echo", text, &format!("code {} model {}", r2, m2), "c06.model.echo");
        }
        let m3 = model.ask(&format!("json-norm {}", dw));
        let r3 = serde_wire(&sj);
        if m3 != r3 {
            rep.finding("model", "norm", text, &format!("code {} model {}", r3, m3), "c06.model.norm");
        }
    } else {
        rep.count("doc.model-skipped-number-mismatch");
    }
}

/// serde_json's number text layer in volume: print a double, read it back
fn check_number_text(rng: &mut Rng, n: usize, model: &mut Model, rep: &mut Report) {
    for i in 0..n {
        let x = gen_finite(rng);
        let printed = match serde_json::to_string(&serde_json::json!(x)) {
            Ok(s) => s,
            Err(_) => continue,
        };
        rep.case(&format!("{:016x}", x.to_bits()), true);
        // what the printed text denotes (correctly rounded reference)
        match jt::num_bits(&printed) {
            Some(b) if b == x.to_bits() => {}
            other => rep.finding("oracle", "json-number-print", &format!("{:016x}", x.to_bits()),
                &format!("serde_json prints {} which denotes {:?}", printed, other.map(|b| format!("{:016x}", b))), "c06.json-number-print"),
        }
        // what serde_json reads back
        match serde_json::from_str::<serde_json::Value>(&printed) {
            Ok(v) => {
                let y = v.as_f64().unwrap_or(f64::NAN);
                if y.to_bits() != x.to_bits() {
                    rep.finding("oracle", "json-number", &format!("{:016x}", x.to_bits()),
                        &format!("printed as {} and read back as {:016x}", printed, y.to_bits()), NUMKEY);
                }
            }
            Err(e) => rep.finding("oracle", "json-number", &format!("{:016x}", x.to_bits()), &format!("printed as {} and rejected: {}", printed, e), NUMKEY),
        }
        // the reference parser itself against the Lean specification (sampled)
        if i % 50 == 0 {
            let m = model.ask(&format!("num-parse {}", wire::hs(&printed)));
            let r = format!("{:016x}", printed.parse::<f64>().unwrap_or(f64::NAN).to_bits());
            if m != r {
                rep.finding("model", "num-parse", &printed, &format!("rust {} lean {}", r, m), "c06.model.num-parse");
            }
            rep.count("number-text.reference-vs-lean");
        }
    }
}

/// (ii) the text layer through the real binary, one batch
fn check_binary_batch(ctx: &Ctx, vals: &[TV], dir: &std::path::Path, rep: &mut Report) {
    // stage A: literals → output JSON
    let mut prog = String::new();
    let mut kept: Vec<&TV> = vec![];
    for v in vals {
        // a function-shaped record denotes a function (excluded by the property; an
        // unportable one would make `output r = inputs` fail for the whole batch)
        if tv_fn_shaped(v) {
            rep.count("binary.function-shaped-skipped");
            continue;
        }
        let src = v.to_source();
        // keep only values whose literal the real evaluator reads as exactly this tree
        let heap = new_heap();
        let env = std::rc::Rc::new(blots_core::environment::Environment::new());
        let ok = match guarded(|| crate::run::eval_expr_src(&src, &heap, &env)) {
            Ok(Ok(val)) => tree_exact(v, &val, &heap.borrow(), "$").is_ok(),
            _ => false,
        };
        if !ok {
            rep.count("binary.literal-not-expressible");
            continue;
        }
        prog.push_str(&format!("output v{} = {}\n", kept.len(), src));
        kept.push(v);
    }
    if kept.is_empty() {
        return;
    }
    let file = dir.join("prog.blots");
    if std::fs::write(&file, &prog).is_err() {
        return;
    }
    let a = run_blots(&ctx.blots_bin, &[file.to_string_lossy().to_string()], None, dir);
    rep.count("binary.runs");
    let ja = match (a.code, jt::parse(&a.stdout)) {
        (Some(0), Some(j @ JT::Obj(_))) => j,
        _ => {
            rep.finding("oracle", "output-text", &prog, &format!("exit {:?}, stdout is not one JSON object: {}", a.code, a.stdout.chars().take(200).collect::<String>()), "c06.output-text");
            return;
        }
    };
    for (i, v) in kept.iter().enumerate() {
        let repr = format!("output v = {}", v.to_source());
        rep.case(&repr, true);
        match ja.get(&format!("v{}", i)) {
            None => rep.finding("oracle", "output-text", &repr, "output member missing", "c06.output-text"),
            Some(j) => {
                if let Err((_, d)) = tv_vs_jt(v, j, "$") {
                    rep.finding("oracle", "output-text", &repr, &format!("printed JSON does not denote the value: {}", d), "c06.output-text");
                }
            }
        }
    }
    // stage B: the printed JSON is the input of a second run
    let b = run_blots(&ctx.blots_bin, &["-i".into(), a.stdout.trim().to_string(), "output r = inputs".into()], None, dir);
    rep.count("binary.runs");
    let jb = match (b.code, jt::parse(&b.stdout)) {
        (Some(0), Some(j @ JT::Obj(_))) => j,
        _ => {
            rep.finding("oracle", "reload", a.stdout.trim(), &format!("second run: exit {:?}, stdout {}", b.code, b.stdout.chars().take(200).collect::<String>()), "c06.reload");
            return;
        }
    };
    for (i, v) in kept.iter().enumerate() {
        let repr = format!("output v = {}", v.to_source());
        if tv_fn_shaped(v) {
            continue;
        }
        match jb.get("r").and_then(|r| r.get(&format!("v{}", i))) {
            None => rep.finding("oracle", "reload", &repr, "value missing after output → input", "c06.reload"),
            Some(j) => {
                if let Err((numeric, d)) = tv_vs_jt(v, j, "$") {
                    if numeric {
                        rep.finding("oracle", "json-number", &repr, &format!("after output → JSON → input: {}", d), NUMKEY);
                    } else {
                        rep.finding("oracle", "reload", &repr, &format!("after output → JSON → input: {}", d), "c06.reload");
                    }
                }
            }
        }
    }
    // stage B': equality decided by the language itself
    let mut prog2 = String::new();
    let mut idx = vec![];
    for (i, v) in kept.iter().enumerate() {
        if tv_fn_shaped(v) {
            continue;
        }
        prog2.push_str(&format!("output e{} = inputs.v{} .== {}\n", i, i, v.to_source()));
        idx.push(i);
    }
    let file2 = dir.join("prog2.blots");
    if !idx.is_empty() && std::fs::write(&file2, &prog2).is_ok() {
        let c = run_blots(&ctx.blots_bin, &["-i".into(), a.stdout.trim().to_string(), file2.to_string_lossy().to_string()], None, dir);
        rep.count("binary.runs");
        match (c.code, jt::parse(&c.stdout)) {
            (Some(0), Some(j @ JT::Obj(_))) => {
                for i in idx {
                    if j.get(&format!("e{}", i)) != Some(&JT::Bool(true)) {
                        let repr = format!("output v = {}", kept[i].to_source());
                        // a number that came back off by an ulp is the number finding
                        let numeric = jb.get("r").and_then(|r| r.get(&format!("v{}", i))).map(|x| matches!(tv_vs_jt(kept[i], x, "$"), Err((true, _)))).unwrap_or(false);
                        rep.finding("oracle", if numeric { "json-number" } else { "reload" }, &repr,
                            "inputs.v .== <the literal> is not true after output → JSON → input", if numeric { NUMKEY } else { "c06.reload" });
                    }
                }
            }
            _ => rep.finding("oracle", "reload", &prog2, &format!("comparison run: exit {:?}: {}", c.code, c.stdout.chars().take(200).collect::<String>()), "c06.reload"),
        }
    }
}

/// documents through the real binary: `-i <doc>` / stdin, `output r = inputs`
fn check_binary_docs(ctx: &Ctx, rng: &mut Rng, docs: &[JT], dir: &std::path::Path, rep: &mut Report) {
    let wrapper = JT::Obj(docs.iter().enumerate().map(|(i, d)| (format!("d{}", i), d.clone())).collect());
    let text = doc_text(&wrapper, rng);
    if text.len() > 60_000 {
        return;
    }
    let via_stdin = rng.chance(1, 3);
    let out = if via_stdin {
        run_blots(&ctx.blots_bin, &["output r = inputs".into()], Some(text.as_bytes()), dir)
    } else {
        run_blots(&ctx.blots_bin, &["-i".into(), text.clone(), "output r = inputs".into()], None, dir)
    };
    rep.count("binary.runs");
    rep.case(&text, true);
    match (out.code, jt::parse(&out.stdout)) {
        (Some(0), Some(j @ JT::Obj(_))) => match j.get("r") {
            Some(r) => {
                if let Err((numeric, d)) = wrapper.sem_eq(r, "$") {
                    if numeric {
                        rep.finding("oracle", "json-number", &text, &format!("document number reproduced as a different double: {}", d), NUMKEY);
                    } else {
                        rep.finding("oracle", "document-echo", &text, &format!("document not reproduced by output r = inputs: {}", d), "c06.document-echo");
                    }
                }
            }
            None => rep.finding("oracle", "document-echo", &text, "no member r", "c06.document-echo"),
        },
        _ => rep.finding("oracle", "document-echo", &text, &format!("exit {:?}; stdout {}; stderr {}", out.code,
            out.stdout.chars().take(120).collect::<String>(), out.stderr.chars().take(200).collect::<String>()), "c06.document-echo"),
    }
}

fn check_invalid_inputs(ctx: &Ctx, dir: &std::path::Path, rep: &mut Report) {
    // (text, violates the JSON grammar) — 1e999 is grammatical but out of range
    for (bad, ungrammatical) in [("{\"a\":\"\\ud800\"}", true), ("{\"a\":\"\\udc00x\"}", true), ("{\"a\":1e999}", false), ("{\"a\":NaN}", true),
        ("{\"a\":1,}", true), ("{\"a\"", true), ("[1,2", true), ("{\"a\":01}", true), ("{'a':1}", true), ("{\"a\":\"\u{1}\"}", true)] {
        let out = run_blots(&ctx.blots_bin, &["-i".into(), bad.to_string(), "output a = 1".into()], None, dir);
        rep.count("binary.runs");
        rep.case(bad, true);
        // an input error is fine; a crash is not; accepting and emitting an object is only noted
        match out.code {
            Some(1) => rep.count("invalid-input.rejected"),
            Some(0) => rep.count("invalid-input.accepted"),
            other => rep.finding("oracle", "panic", bad, &format!("invalid input JSON: exit {:?}: {}", other, out.stderr.chars().take(200).collect::<String>()), "c06.panic"),
        }
        if ungrammatical && jt::parse(bad).is_some() {
            rep.finding("model", "reference-parser", bad, "the harness' JSON reader accepts an invalid document", "c06.harness.reference-parser");
        }
    }
}

// ---------------------------------------------------------------- the JSON text layer against the Lean model

const TEXTKEY: &str = "c06.model.json-text";

/// a serde tree whose numbers are all `f64`s (the writer's modelled domain: blots builds
/// every number with `Number::from_f64`)
fn tv_to_serde(v: &TV) -> Option<serde_json::Value> {
    Some(match v {
        TV::Num(x) => serde_json::Value::Number(serde_json::Number::from_f64(*x)?),
        TV::Bool(b) => serde_json::Value::Bool(*b),
        TV::Null => serde_json::Value::Null,
        TV::Str(s) => serde_json::Value::String(s.clone()),
        TV::List(l) => serde_json::Value::Array(l.iter().map(tv_to_serde).collect::<Option<Vec<_>>>()?),
        TV::Record(r) => {
            let mut m = serde_json::Map::new();
            for (k, x) in r {
                m.insert(k.clone(), tv_to_serde(x)?);
            }
            serde_json::Value::Object(m)
        }
        _ => return None,
    })
}

/// `serde_json::to_string` against `jsonWrite`, character for character; the written text
/// read back by serde_json (oracle: same tree) and by `jsonRead`
fn check_text_write(j: &serde_json::Value, model: &mut Model, rep: &mut Report) {
    let jw = serde_wire(j);
    let text = match guarded(|| serde_json::to_string(j)) {
        Ok(Ok(t)) => t,
        _ => {
            rep.finding("oracle", "panic", &jw, "serde_json::to_string failed on a tree of finite numbers", "c06.panic");
            return;
        }
    };
    rep.case(&text, true);
    rep.count("text.write-cases");
    let m = model.ask(&format!("json-write {}", jw));
    match wire::unhs(&m) {
        Some(mt) if mt == text => {}
        other => rep.finding("model", "json-write", &text, &format!("serde_json writes {:?}, the model {:?}", text, other.unwrap_or(m)), TEXTKEY),
    }
    // model-free: the text is read back as the same tree (bit-exact numbers, exact strings);
    // serde_json refuses more than 127 levels of nesting, which is reported separately
    match serde_json::from_str::<serde_json::Value>(&text) {
        Ok(back) => {
            if serde_wire(&back) != jw {
                rep.finding("oracle", "text-roundtrip", &text, &format!("written from {} read back as {}", jw, serde_wire(&back)), "c06.text-roundtrip");
            }
        }
        Err(e) => rep.finding("oracle", "text-roundtrip", &text, &format!("the written text is rejected: {}", e), "c06.text-roundtrip"),
    }
    let m2 = model.ask(&format!("json-read-norm {}", wire::hs(&text)));
    if m2 != jw {
        rep.finding("model", "json-read-written", &text, &format!("tree {} model reads {}", jw, m2), TEXTKEY);
    }
}

/// `serde_json::from_str::<Value>` against `jsonRead` on an arbitrary text: accept/reject
/// and the tree; when the harness' own order-preserving reader accepts too, the document
/// tree (member order, duplicates)
fn check_text_read(text: &str, model: &mut Model, rep: &mut Report) {
    rep.case(text, true);
    rep.count("text.read-cases");
    let real = match guarded(|| serde_json::from_str::<serde_json::Value>(text)) {
        Ok(Ok(v)) => {
            rep.count("text.read-accepted");
            serde_wire(&v)
        }
        Ok(Err(_)) => {
            rep.count("text.read-rejected");
            "none".to_string()
        }
        Err(p) => {
            rep.finding("oracle", "panic", text, &format!("serde_json::from_str panicked: {}", p), "c06.panic");
            return;
        }
    };
    let m = model.ask(&format!("json-read-norm {}", wire::hs(text)));
    if m != real {
        rep.finding("model", "json-read", text, &format!("serde_json {} model {}", real, m), TEXTKEY);
        return;
    }
    if real != "none" {
        if let Some(doc) = jt::parse(text) {
            let m2 = model.ask(&format!("json-read {}", wire::hs(text)));
            if m2 != doc.wire() {
                rep.finding("model", "json-read-document", text, &format!("reference reader {} model {}", doc.wire(), m2), TEXTKEY);
            }
        }
    }
}

/// one random edit of a text (most results are invalid JSON)
fn mutate_text(text: &str, rng: &mut Rng) -> String {
    let mut cs: Vec<char> = text.chars().collect();
    const INS: &[char] = &[',', ']', '[', '{', '}', '"', '\\', ':', '0', '1', '9', 'e', 'E', '.', '-', '+', ' ', '\t', '\n', '\r', 'u', 'd', 'D', '8', 'c', 'n', 'x', '/', '\u{1}', '\u{1f}', '\u{7f}', 'é', '\u{a0}', '\u{feff}', '\u{1f600}'];
    match rng.below(5) {
        0 if !cs.is_empty() => {
            let i = rng.below(cs.len());
            cs.remove(i);
        }
        1 if !cs.is_empty() => {
            let i = rng.below(cs.len());
            cs[i] = *rng.pick(INS);
        }
        2 if cs.len() > 1 => {
            let i = rng.below(cs.len() - 1);
            cs.swap(i, i + 1);
        }
        3 if !cs.is_empty() => {
            let i = rng.below(cs.len());
            cs.truncate(i);
        }
        _ => {
            let i = rng.below(cs.len() + 1);
            cs.insert(i, *rng.pick(INS));
        }
    }
    cs.into_iter().collect()
}

const HAND_TEXTS: &[&str] = &[
    // white space
    " 1 ", "\t\n\r [ 1 , 2 ] \n", "{ \"a\" : [ ] , \"b\" : { } }", " [ ] ", "{ }", "\u{a0}1", "1\u{a0}", "\u{feff}1", "\u{c}1", "1\u{b}", "",
    " ", "[1 2]", "1 2", "true false", "nullx", "null ", " null", "[null,true,false]", "nul", "tru", "fals", "nulL", "True",
    // escapes
    "\"\\\"\\\\\\/\\b\\f\\n\\r\\t\"", "\"\\u00e9\\u00E9\\u0000\\u001f\\u007F\"", "\"\\x\"", "\"\\a\"", "\"\\U0041\"", "\"\\u12\"", "\"\\u12G4\"", "\"\\u 123\"",
    "\"\u{1}\"", "\"\u{1f}\"", "\"\n\"", "\"\t\"", "\"\u{7f}\"", "\"\u{80}\u{2028}\u{ffff}\u{10000}\u{10ffff}\"", "\"a", "\"\\", "\"\\\"", "\"", "\"\\u\"", "'a'",
    // surrogates
    "\"\\ud83d\\ude00\"", "\"\\uD83D\\uDE00\"", "\"\\uDBFF\\uDFFF\"", "\"\\ud800\\udc00\"", "\"\\ud83d\"", "\"\\ude00\"", "\"\\ud83dx\"", "\"\\ud83d\\u0041\"",
    "\"\\ud83d\\\"", "\"\\ud83d\\n\"", "\"\\udc00\"", "\"\\udfff\"", "\"\\udbff\"", "\"\\ud800\"", "\"\\ud7ff\"", "\"\\ue000\"", "\"\\ud800\\udbff\"", "\"\\udbff\\udc00\"", "\"\\ud800\\udfff\"",
    "\"\\ud800\\ue000\"", "\"\\udbff\\udbff\"", "\"\\uDC00\"", "\"\\uDFFF\\uDC00\"", "\"\\u0020\\ud800\\udc00\\uffff\"", "\"\\ud800\\ud800\"", "\"\\ud800\\ud800\\udc00\"", "\"\\udc00\\ud800\"", "\"\\ud7ff\\ue000\"", "\"\\ud83d\\ude0\"", "\"\\ud83d\\u\"",
    // numbers
    "1E5", "1e5", "1e+5", "1E+05", "1e-05", "-0", "0", "-0.0", "-0e0", "0e0", "0E-0", "1.0e-3", "1.5E+3", "01", "00", "-01", "-00", "0.1e1", "0.0", "0.", "1.", ".5", "-.5", "1e", "1e+",
    "1e-", "+1", "- 1", "-", "--1", "1.e5", "1.5.5", "1e5e5", "1e5.5", "0x10", "1_000", "NaN", "Infinity", "-Infinity", "inf", "nan", "1e999", "-1e999", "1e308", "1e309",
    "1.7976931348623157e308", "1.7976931348623158e308", "1.797693134862315807e308", "1.797693134862315808e308", "0e999999999999999999999", "-0e999999999999999999999",
    "1e-999999999999999999999", "1e99999999999999999999", "0.0e99999999999999999999", "18446744073709551615", "18446744073709551616", "-9223372036854775808",
    "-9223372036854775809", "9007199254740993", "123456789012345678901234567890", "0.0000000000000000000000000000000000000000000000000001", "5e-324", "2.5e-324",
    "2.4703282292062328e-324", "2.4703282292062327e-324", "4.9406564584124654e-324", "2.2250738585072011e-308", "2.2250738585072014e-308", "8.41e21", "1e22", "1e23",
    "0.30000000000000004", "2.9802322387695312e-8", "2.9802322387695313e-8", "9007199254740992.5", "9007199254740993.0000000000000000000000001", "1.0000000000000002220446049250313080847263336181640625",
    "1.00000000000000011102230246251565404236316680908203125", "1.00000000000000011102230246251565404236316680908203124", "1.00000000000000011102230246251565404236316680908203126",
    "100000000000000000000000000000000000000000000000000000000000000000000000000000000000000000000000000000e-100", "0.000000000000000000000000000000000000000000000000001e51",
    // structure
    "[1,]", "[,1]", "[,]", "[1,,2]", "{\"a\":1,}", "{,}", "{\"a\":1,,\"b\":2}", "{\"a\"}", "{\"a\":}", "{\"a\" 1}", "{\"a\"::1}", "{1:1}", "{a:1}", "{\"a\":1 \"b\":2}", "{null:1}",
    "[", "]", "{", "}", "[}", "{]", "[1}", "{\"a\":1]", "[[]", "[]]", "{}}", "[\"a\":1]", "{\"a\",1}", "{\"a\":1,\"a\":2}", "{\"a\":1,\"b\":2,\"a\":3,\"\":4,\"b\":[{\"z\":1,\"z\":{}}]}",
    "{\"b\":1,\"a\":2}", "{\"\\u0061\":1,\"a\":2}", "{\"é\":1,\"z\":2,\"\u{10000}\":3,\"\u{ffff}\":4}", "[[[[[[[[[[1]]]]]]]]]]", "{\"a\":{\"a\":{\"a\":{\"a\":[{\"a\":null}]}}}}",
    "[1,[2,[3,[4,{\"k\":[5,\"x\",true,null,-0.0,1e21]}]]]]", ":", ",", "\\", "[\"a\",\"b\" , \"c\"\n]",
];

fn check_json_text(ctx: &Ctx, rng: &mut Rng, fixed: &[TV], model: &mut Model, rep: &mut Report) {
    // writer: fixed witnesses, the recursive value generator through the real
    // from_value / to_json, and trees built directly (awkward keys, any member order)
    let mut written: Vec<String> = vec![];
    for v in fixed {
        if v.is_data() && all_finite(v) {
            if let Some(j) = tv_to_serde(v) {
                check_text_write(&j, model, rep);
            }
        }
    }
    let extremes = [1.0, -0.0, 0.0, 1e21, 1e16, 1e15, 9999999999999998.0, 1e-5, 1e-6, 1e-7, 1.234e-5, 1.234e-6, 5e-324, f64::MAX, f64::MIN_POSITIVE, f64::EPSILON,
        2f64.powi(-25), 1e22, 1e23, 123456789012345680.0, 0.3, 1e300, 1e-300, -1.5e300, 99999.0, 100000.0, 0.0001, 0.00001, 12345678.9];
    check_text_write(&serde_json::Value::Array(extremes.iter().map(|x| serde_json::json!(x)).collect()), model, rep);
    let n = ctx.budget(2500, 60000);
    for i in 0..n {
        let v = gen_value(rng, 1 + i % 6, true);
        let heap = new_heap();
        let val = v.to_value(&heap);
        let j = if i % 2 == 0 {
            match guarded(|| SerializableValue::from_value(&val, &heap.borrow()).map(|sv| sv.to_json())) {
                Ok(Ok(j)) => Some(j),
                _ => None,
            }
        } else {
            tv_to_serde(&v)
        };
        if let Some(j) = j {
            if i % 10 == 0 {
                if let Ok(t) = serde_json::to_string(&j) {
                    written.push(t);
                }
            }
            check_text_write(&j, model, rep);
        }
    }
    // numbers alone, in volume
    let nn = ctx.budget(6000, 200000);
    for _ in 0..nn / 20 {
        let xs: Vec<serde_json::Value> = (0..20).map(|_| serde_json::json!(gen_finite(rng))).collect();
        check_text_write(&serde_json::Value::Array(xs), model, rep);
    }
    // reader: hand-written texts
    for t in HAND_TEXTS {
        check_text_read(t, model, rep);
    }
    // nesting: serde_json's recursion limit
    for d in [1usize, 2, 100, 126, 127, 128, 129, 200] {
        check_text_read(&format!("{}{}", "[".repeat(d), "]".repeat(d)), model, rep);
        check_text_read(&format!("{}1{}", "[".repeat(d), "]".repeat(d)), model, rep);
        check_text_read(&format!("{}null{}", "{\"a\":".repeat(d), "}".repeat(d)), model, rep);
        check_text_read(&format!("{}{}{}", "[{\"k\": ".repeat(d / 2), if d % 2 == 1 { "[]" } else { "0" }, "}]".repeat(d / 2)), model, rep);
    }
    // a long flat array and a long string (fuel)
    check_text_read(&format!("[{}]", (0..3000).map(|i| i.to_string()).collect::<Vec<_>>().join(" , ")), model, rep);
    check_text_read(&format!("\"{}\"", "a\\n\\u00e9é".repeat(2000)), model, rep);
    // reader: generated documents (white space, escapes, number spellings, duplicate keys)
    // and random edits of them and of written texts
    let nd = ctx.budget(2500, 60000);
    for i in 0..nd {
        let doc = gen_doc(rng, 1 + i % 6, i % 3 == 0);
        let text = doc_text(&doc, rng);
        if text.len() > 4000 {
            continue;
        }
        check_text_read(&text, model, rep);
        let mut t = text.clone();
        for _ in 0..(1 + rng.below(2)) {
            t = mutate_text(&t, rng);
        }
        check_text_read(&t, model, rep);
        if !written.is_empty() && i % 3 == 0 {
            let w = written[rng.below(written.len())].clone();
            if w.len() <= 4000 {
                check_text_read(&mutate_text(&w, rng), model, rep);
            }
        }
    }
    // number tokens alone and edited
    for _ in 0..ctx.budget(3000, 60000) {
        let t = num_text(rng);
        check_text_read(&t, model, rep);
        check_text_read(&mutate_text(&t, rng), model, rep);
    }
}

/// nesting: serde_json's writer has no depth limit, its reader refuses the 128th nested
/// array/object ("recursion limit exceeded"), so a value nested that deep is written but
/// cannot be an input.  Oracle (the property says "at any nesting depth").
fn check_deep_nesting(ctx: &Ctx, dir: &std::path::Path, rep: &mut Report) {
    for d in [60usize, 126, 127, 128, 200] {
        // in process: the value [[…[1]…]] through to_json / to_string / from_str / from_json
        let mut j = serde_json::json!(1.0);
        for _ in 0..d {
            j = serde_json::Value::Array(vec![j]);
        }
        let repr = format!("a list nested {} deep: {}1{}", d, "[".repeat(d), "]".repeat(d));
        rep.case(&repr, true);
        let text = match serde_json::to_string(&j) {
            Ok(t) => t,
            Err(e) => {
                rep.finding("oracle", "deep-nesting", &repr, &format!("not written: {}", e), "c06.deep-nesting");
                continue;
            }
        };
        match serde_json::from_str::<serde_json::Value>(&text) {
            Ok(back) if back == j => {}
            Ok(_) => rep.finding("oracle", "deep-nesting", &repr, "written and read back as a different tree", "c06.deep-nesting"),
            Err(e) => rep.finding("oracle", "deep-nesting", &repr, &format!("the value is written as JSON text but serde_json::from_str refuses that text: {}", e), "c06.deep-nesting"),
        }
        std::mem::forget(j); // (dropping very deep trees recursively is not the subject here)
    }
    // the real binary: output of one run as the input of the next (the outputs object adds a level)
    for d in [60usize, 125, 126, 127, 150] {
        let src = format!("output x = {}1{}", "[".repeat(d), "]".repeat(d));
        rep.case(&src, true);
        let a = run_blots(&ctx.blots_bin, &[src.clone()], None, dir);
        rep.count("binary.runs");
        if a.code != Some(0) || jt::parse(&a.stdout).is_none() {
            // the evaluator itself may refuse deep literals: not this property
            rep.count("deep-nesting.not-evaluated");
            continue;
        }
        let b = run_blots(&ctx.blots_bin, &["-i".into(), a.stdout.trim().to_string(), "output x = inputs.x".into()], None, dir);
        rep.count("binary.runs");
        let ok = b.code == Some(0) && jt::parse(&b.stdout).and_then(|j| j.get("x").cloned()) == jt::parse(&a.stdout).and_then(|j| j.get("x").cloned());
        if !ok {
            rep.finding("oracle", "deep-nesting", &src, &format!("the printed output is not accepted as input / not reproduced: exit {:?} {}", b.code,
                b.stderr.chars().take(160).collect::<String>()), "c06.deep-nesting");
        }
    }
}

pub fn run(ctx: &Ctx, rep: &mut Report) {
    let mut rng = Rng::new(ctx.seed);
    let mut model = Model::spawn(&ctx.model_path);
    let dir = scratch_dir("c06");

    // fixed witnesses first
    let fixed: Vec<TV> = vec![
        TV::Record(vec![("b".into(), TV::Num(1.0)), ("a".into(), TV::List(vec![TV::Str("x\"\\".into()), TV::Null, TV::Bool(true)]))]),
        TV::Record(vec![("__blots_function".into(), TV::Str("hello world".into()))]),
        TV::Record(vec![("__blots_function".into(), TV::Str("map".into()))]),
        TV::Record(vec![("__blots_function".into(), TV::Num(1.0))]),
        TV::Num(-0.0),
        TV::Num(f64::MAX),
        TV::Num(5e-324),
        TV::Num(9007199254740993.0),
        TV::Num(f64::INFINITY),
        TV::Num(f64::NAN),
        TV::Str("\u{0}\u{1f}\u{7f}\"\\/\u{2028}\u{ffff}\u{10000}\u{10ffff}".into()),
        TV::Record(vec![("".into(), TV::Null), ("1".into(), TV::Null), ("__proto__".into(), TV::Null)]),
        TV::BuiltIn("map".into()),
    ];
    for v in &fixed {
        check_tree(v, &mut model, rep);
    }

    // (i) trees
    let n_tree = ctx.budget(12000, 250000);
    for i in 0..n_tree {
        let depth = 1 + i % 6;
        let v = if i % 5 == 0 { tv::gen_data(&mut rng, depth.min(4), true) } else { gen_value(&mut rng, depth, i % 7 != 0) };
        check_tree(&v, &mut model, rep);
    }

    // documents
    let n_doc = ctx.budget(8000, 160000);
    for i in 0..n_doc {
        let doc = gen_doc(&mut rng, 1 + i % 6, i % 3 == 0);
        let text = doc_text(&doc, &mut rng);
        match jt::parse(&text) {
            Some(back) if back == doc => {}
            _ => {
                rep.finding("model", "reference-parser", &text, "the harness' own reader does not read back the document it wrote", "c06.harness.reference-parser");
                continue;
            }
        }
        check_doc(&doc, &text, &mut model, rep);
    }

    // number text layer
    check_number_text(&mut rng, ctx.budget(60000, 2000000), &mut model, rep);

    // the JSON text layer against the Lean model (`jsonWrite` / `jsonRead`)
    check_json_text(ctx, &mut rng, &fixed, &mut model, rep);

    // (ii) the real binary
    let n_batch = ctx.budget(60, 1200);
    for b in 0..n_batch {
        let vals: Vec<TV> = (0..30).map(|i| gen_value(&mut rng, 1 + (b + i) % 6, true)).collect();
        check_binary_batch(ctx, &vals, &dir, rep);
    }
    check_binary_batch(ctx, &fixed.iter().filter(|v| v.is_data() && all_finite(v)).cloned().collect::<Vec<_>>(), &dir, rep);
    for b in 0..ctx.budget(60, 1200) {
        let docs: Vec<JT> = (0..12).map(|i| gen_doc(&mut rng, 1 + (b + i) % 6, false)).collect();
        check_binary_docs(ctx, &mut rng, &docs, &dir, rep);
    }
    // an unparsable function string stays a record
    check_binary_docs(ctx, &mut rng, &[JT::Obj(vec![("__blots_function".into(), JT::Str("hello world".into()))])], &dir, rep);
    check_invalid_inputs(ctx, &dir, rep);
    check_deep_nesting(ctx, &dir, rep);

    let _ = std::fs::remove_dir_all(&dir);
    rep.model_requests = model.requests;
    rep.notes.push("text layer: serde_json::to_string / from_str compared with the Lean jsonWrite / jsonRead (theorem text_roundtrip) character for character and tree for tree; also validated through serde_json in process and through the real binary; numbers are compared as bit patterns after reading the printed text with Rust's correctly rounded str::parse (itself sampled against the Lean parseDec)".into());
    rep.notes.push("objects whose __blots_function string names a built-in or parses as a lambda are excluded from the oracles (they denote functions) but included in the model correspondence".into());
}
